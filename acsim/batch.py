"""Batches of simulated runs over 16 processes, shrinking, replay files, known findings, evidence."""
from __future__ import annotations

import concurrent.futures as cf
import faulthandler
import json
import multiprocessing
import os
import subprocess
import sys
import time
import warnings

from .core import HarnessError, Stats, digest, run_isolated

VERIF_DIR = os.path.dirname(os.path.dirname(os.path.abspath(__file__)))
REPLAY_OUT = os.environ.get("VERIF_REPLAY_OUT") or os.path.join(VERIF_DIR, "replays", "out")
EVIDENCE_DIR = os.environ.get("VERIF_EVIDENCE_DIR") or os.path.join(VERIF_DIR, "evidence")
KNOWN_FILE = os.path.join(VERIF_DIR, "known_findings.json")

_ENGINE = None  # set in the parent before fork


def _key64(hexdigest: str) -> int:
    return int(hexdigest[:16], 16)


def _run_chunk(args):
    """Worker: executes a chunk of run indices, returns an aggregate."""
    prop, seed, tier, indices, cap_s = args
    warnings.simplefilter("ignore")
    faulthandler.dump_traceback_later(cap_s, exit=True)
    agg = {
        "runs": 0,
        "steps": 0,
        "sim_time": 0,
        "skipped": 0,
        "stats": {},
        "distinct": [],
        "shapes": [],
        "states": [],
        "scheds": [],
        "violations": [],
        "sample": None,
        "fingerprints": {},
        "world_rejected": {},
        "harness_errors": [],
        "nontrivial_runs": 0,
    }
    try:
        for idx in indices:
            try:
                spec = _ENGINE.generate(prop, seed, idx, tier)
                if getattr(_ENGINE, "isolate_runs", False):
                    # the run executes in a child forked from this worker, which itself never runs
                    # library code: no process-global state carries from one run to the next
                    res = run_isolated(_ENGINE.execute, spec)
                else:
                    res = _ENGINE.execute(spec)
            except HarnessError as err:
                agg["harness_errors"].append([idx, f"HarnessError: {err}"])
                continue
            except Exception as err:  # pylint: disable=W0718
                import traceback  # pylint: disable=C0415

                agg["harness_errors"].append([idx, traceback.format_exc(limit=8)])
                _ = err
                continue
            agg["runs"] += 1
            agg["steps"] += res.get("steps", 0)
            agg["sim_time"] += res.get("sim_time", 0)
            agg["skipped"] += res.get("skipped", 0)
            Stats.merge(agg["stats"], res.get("stats", {}))
            if res.get("nontrivial"):
                agg["nontrivial_runs"] += 1
                agg["distinct"].append(_key64(res["distinct_key"]))
            if "shape_key" in res:
                agg["shapes"].append(_key64(res["shape_key"]))
            if "state_key" in res:
                agg["states"].append(_key64(res["state_key"]))
            if "sched_key" in res:
                agg["scheds"].append(_key64(res["sched_key"]))
            for kind, n in res.get("world_rejected", {}).items():
                agg["world_rejected"][kind] = agg["world_rejected"].get(kind, 0) + n
            if idx < 8:
                agg["fingerprints"][str(idx)] = res["fingerprint"]
            if agg["sample"] is None and res.get("nontrivial"):
                agg["sample"] = {"idx": idx, "case": _ENGINE.sample_of(spec, res)}
            for viol in res.get("violations", []):
                agg["violations"].append({"idx": idx, "violation": viol, "spec": spec})
    finally:
        faulthandler.cancel_dump_traceback_later()
    return agg


def run_batch(engine, prop, seed, tier, n_runs, chunk, wall_budget_s, workers=None, run_cap_s=600):
    """Runs indices [0, n_runs) in chunks; stops submitting when the wall budget is exhausted.

    The set of runs executed is the prefix [0, k): a function of the seed and of k only.
    """
    global _ENGINE  # pylint: disable=W0603
    _ENGINE = engine
    workers = workers or int(os.environ.get("VERIF_WORKERS", "0")) or min(16, os.cpu_count() or 1)
    started = time.time()
    chunks = [list(range(i, min(n_runs, i + chunk))) for i in range(0, n_runs, chunk)]
    total = {
        "runs": 0,
        "steps": 0,
        "sim_time": 0,
        "skipped": 0,
        "stats": {},
        "distinct": set(),
        "shapes": set(),
        "states": set(),
        "scheds": set(),
        "violations": [],
        "samples": [],
        "fingerprints": {},
        "world_rejected": {},
        "harness_errors": [],
        "nontrivial_runs": 0,
        "planned_runs": n_runs,
        "truncated_by_wall": False,
        "workers": workers,
    }
    ctx = multiprocessing.get_context("fork")
    try:
        with cf.ProcessPoolExecutor(max_workers=workers, mp_context=ctx) as pool:
            pending: dict = {}
            next_chunk = 0
            done_chunks: dict[int, dict] = {}
            while next_chunk < len(chunks) or pending:
                while next_chunk < len(chunks) and len(pending) < 2 * workers:
                    if time.time() - started > wall_budget_s:
                        total["truncated_by_wall"] = True
                        next_chunk = len(chunks)
                        break
                    fut = pool.submit(
                        _run_chunk, (prop, seed, tier, chunks[next_chunk], run_cap_s)
                    )
                    pending[fut] = next_chunk
                    next_chunk += 1
                if not pending:
                    break
                finished, _ = cf.wait(pending, timeout=run_cap_s + 60, return_when=cf.FIRST_COMPLETED)
                if not finished:
                    raise HarnessError("HARNESS_TIMEOUT: no chunk finished within the cap")
                for fut in finished:
                    done_chunks[pending.pop(fut)] = fut.result()
            for n in sorted(done_chunks):
                agg = done_chunks[n]
                for key in ("runs", "steps", "sim_time", "skipped", "nontrivial_runs"):
                    total[key] += agg[key]
                Stats.merge(total["stats"], agg["stats"])
                for key in ("distinct", "shapes", "states", "scheds"):
                    total[key].update(agg[key])
                total["violations"].extend(agg["violations"])
                total["fingerprints"].update(agg["fingerprints"])
                total["harness_errors"].extend(agg["harness_errors"])
                for kind, cnt in agg["world_rejected"].items():
                    total["world_rejected"][kind] = total["world_rejected"].get(kind, 0) + cnt
                if agg["sample"] is not None and len(total["samples"]) < 3:
                    total["samples"].append(agg["sample"])
    except cf.process.BrokenProcessPool as err:
        raise HarnessError(f"HARNESS_TIMEOUT or worker death: {err}") from err
    total["wall_s"] = time.time() - started
    return total


# --------------------------------------------------------------------------------------
# shrinking


def _fails_same(engine, spec, signature) -> bool:
    try:
        res = engine.execute(spec)
    except Exception:  # pylint: disable=W0718
        return False
    return any(v.get("signature") == signature for v in res.get("violations", []))


def shrink(engine, spec, signature, budget_s=90.0):
    """ddmin over the operation list, then the engine's own reductions, while the same oracle of the
    same property keeps failing with the same signature."""
    started = time.time()
    best = spec

    def ok(cand):
        return time.time() - started < budget_s and _fails_same(engine, cand, signature)

    # ddmin on ops
    ops = list(best["ops"])
    n = 2
    while len(ops) >= 2 and time.time() - started < budget_s:
        size = max(1, len(ops) // n)
        reduced = False
        for start in range(0, len(ops), size):
            cand_ops = ops[:start] + ops[start + size :]
            cand = dict(best, ops=cand_ops)
            if cand_ops and ok(cand):
                ops, best = cand_ops, cand
                n = max(n - 1, 2)
                reduced = True
                break
        if not reduced:
            if size == 1:
                break
            n = min(len(ops), n * 2)
    # engine-specific reductions to a fixpoint
    reductions = getattr(engine, "reductions", None)
    if reductions is not None:
        progress = True
        while progress and time.time() - started < budget_s:
            progress = False
            for cand in reductions(best):
                if ok(cand):
                    best = cand
                    progress = True
                    break
    return best


# --------------------------------------------------------------------------------------
# known findings


def load_known(prop):
    if not os.path.exists(KNOWN_FILE):
        return []
    with open(KNOWN_FILE, encoding="utf-8") as fobj:
        entries = json.load(fobj)
    return [e for e in entries.get("findings", []) if e.get("property") == prop]


def sig_matches(entry_signature, signature) -> bool:
    """A listed signature matches a violation when every key it names has the same value there."""
    return all(signature.get(key) == val for key, val in entry_signature.items())


def match_known(entries, signature):
    for entry in entries:
        if entry.get("status") == "known" and sig_matches(entry.get("signature", {}), signature):
            return entry
    return None


# --------------------------------------------------------------------------------------
# replay files


def write_replay(prop, spec, violation, fingerprint, name=None):
    os.makedirs(REPLAY_OUT, exist_ok=True)
    name = name or f"{prop}-{spec.get('seed')}-{spec.get('idx')}-{violation['oracle']}.json"
    path = os.path.join(REPLAY_OUT, name)
    doc = dict(spec)
    doc["observed"] = {
        "oracle": violation["oracle"],
        "signature": violation["signature"],
        "step": violation.get("step"),
        "message": violation.get("message"),
    }
    doc["fingerprint"] = fingerprint
    doc["pythonhashseed"] = os.environ.get("PYTHONHASHSEED", "0")
    with open(path, "w", encoding="utf-8") as fobj:
        json.dump(doc, fobj, indent=1, sort_keys=True)
    return path


def replay_in_fresh_process(prop, path, hashseed="4242"):
    """Replays a file in a fresh interpreter, first under another PYTHONHASHSEED (the usual case: the
    violation does not depend on it), then, if that does not reproduce it, under the hash seed
    recorded in the file (a violation that depends on the interpreter's hash seed is still exactly
    repeatable: one hash seed is one execution)."""
    report = _replay_once(prop, path, hashseed, keep=True)
    if report.get("reproduced") and report.get("fingerprint_matches"):
        report["hash_seed_dependent"] = False
        return report
    report = _replay_once(prop, path, None, keep=False)
    report["hash_seed_dependent"] = True
    return report


def _replay_once(prop, path, hashseed, keep):
    env = dict(os.environ, VERIF_NO_REEXEC="1")
    if hashseed is not None:
        env["PYTHONHASHSEED"] = hashseed
    if keep:
        env["VERIF_REPLAY_KEEP_HASHSEED"] = "1"
    else:
        env.pop("VERIF_REPLAY_KEEP_HASHSEED", None)
    proc = subprocess.run(
        [sys.executable, os.path.join(VERIF_DIR, "check.py"), prop, "--replay", path, "--json"],
        capture_output=True,
        text=True,
        env=env,
        timeout=900,
        check=False,
    )
    for line in reversed(proc.stdout.splitlines()):
        if line.startswith("{"):
            return json.loads(line)
    raise HarnessError(f"replay of {path} produced no report: rc={proc.returncode} {proc.stderr[-500:]}")


# --------------------------------------------------------------------------------------
# evidence


def _strict(obj):
    """Non-finite floats as strings, so that the evidence file is strict JSON."""
    if isinstance(obj, float) and (obj != obj or obj in (float("inf"), float("-inf"))):  # noqa: PLR0124
        return repr(obj)
    if isinstance(obj, dict):
        return {str(k): _strict(v) for k, v in obj.items()}
    if isinstance(obj, (list, tuple)):
        return [_strict(v) for v in obj]
    return obj


def write_evidence(prop, tier, seed, level, coverage, assumptions, wall_s, violations):
    os.makedirs(EVIDENCE_DIR, exist_ok=True)
    coverage = _strict(coverage)
    doc = {
        "property_id": prop,
        "tier": tier,
        "seed": seed,
        "level": level,
        "coverage": coverage,
        "assumptions": assumptions,
        "wall_s": round(wall_s, 2),
        "violations": violations,
    }
    path = os.path.join(EVIDENCE_DIR, f"{prop}.json")
    with open(path, "w", encoding="utf-8") as fobj:
        json.dump(doc, fobj, indent=1, sort_keys=True, allow_nan=False)
    return path


def sig_key(signature) -> str:
    return digest(signature)
