"""glsim: seeded operation histories on several aliased GroupedLists vs a plain reference model (C13)."""
from __future__ import annotations

import json
import math

from .core import EventLog, Stats, canon, canon_value, digest, import_autocarver, stream

PROP = "C13"

INF = float("inf")
NAN = float("nan")
# 13 pairwise non-equal, hash-distinct values; the falsy ones (0, "") are there on purpose
UNIVERSE = ["a", "b", "c", "d", "", "__NAN__", 0, 3, 10, -1.5, 0.5, 2.5, INF]
MAX_SLOTS = 3
MUTATING = {
    "group",
    "group_list",
    "append",
    "update",
    "remove",
    "pop",
    "sort",
    "sort_keep",
    "sort_by",
    "sort_by_keep",
    "replace_group_leader",
}


# --------------------------------------------------------------------------------------
# value encoding for specs (JSON without Infinity/NaN tokens)


def enc(v):
    return canon_value(v)


def dec(t):
    kind = t[0]
    if kind == "s":
        return t[1]
    if kind == "i":
        return int(t[1])
    if kind == "f":
        return float(t[1])
    if kind == "nan":
        return NAN
    raise ValueError(t)


def same(a, b) -> bool:
    """Equality of universe values: python equality, NaN equal to NaN."""
    if isinstance(a, float) and isinstance(b, float) and math.isnan(a) and math.isnan(b):
        return True
    if isinstance(a, str) != isinstance(b, str):
        return False
    return a == b


def vkey(v) -> str:
    return json.dumps(canon_value(v, loose=True))


# --------------------------------------------------------------------------------------
# reference model: ordered leader -> members


class GLModel:
    """Plain reference model of a GroupedList."""

    def __init__(self, groups=None):
        self.groups: list[list] = [[leader, list(members)] for leader, members in (groups or [])]

    def clone(self):
        return GLModel(self.groups)

    def leaders(self):
        return [g[0] for g in self.groups]

    def members(self, leader):
        for lead, members in self.groups:
            if same(lead, leader):
                return members
        return None

    def find_group(self, value):
        for lead, members in self.groups:
            if any(same(value, m) for m in members):
                return lead
        return None

    def all_values(self):
        return [m for _, members in self.groups for m in members]

    def has_leader(self, value):
        return any(same(value, lead) for lead in self.leaders())

    def contains(self, value):
        return any(same(value, m) for m in self.all_values())

    # operations with their documented meaning
    def group(self, discarded, kept):
        if same(discarded, kept):
            return
        d_members = self.members(discarded)
        k_members = self.members(kept)
        k_members[:0] = d_members
        self.groups = [g for g in self.groups if not same(g[0], discarded)]

    def append(self, value):
        self.groups.append([value, [value]])

    def update(self, items):
        for key, members in items:
            if not self.has_leader(key):
                self.groups.append([key, list(members)])
            else:
                for g in self.groups:
                    if same(g[0], key):
                        g[1] = list(members)

    def remove(self, leader):
        self.groups = [g for g in self.groups if not same(g[0], leader)]

    def pop(self, idx):
        self.remove(self.groups[idx][0])

    def sorted(self):
        strs = sorted([g for g in self.groups if isinstance(g[0], str)], key=lambda g: g[0])
        nums = sorted([g for g in self.groups if not isinstance(g[0], str)], key=lambda g: g[0])
        return GLModel(strs + nums)

    def sorted_by(self, ordering):
        return GLModel([[lead, self.members(lead)] for lead in ordering])

    def replace_group_leader(self, leader, member):
        for g in self.groups:
            if same(g[0], leader):
                g[0] = member

    def valid(self, op: dict) -> bool:
        """Whether a decoded operation is valid in the current state (used on replay/shrinking)."""
        kind = op["op"]
        if kind == "group":
            return self.has_leader(op["d"]) and self.has_leader(op["k"])
        if kind == "group_list":
            ds = op["ds"]
            return (
                self.has_leader(op["k"])
                and all(self.has_leader(d) for d in ds)
                and len({vkey(d) for d in ds}) == len(ds)
            )
        if kind == "append":
            return not self.contains(op["v"])
        if kind == "update":
            seen = {vkey(v) for v in self.all_values()}
            fresh_used: set[str] = set()
            keys_seen: set[str] = set()
            for key, members in op["items"]:
                if vkey(key) in keys_seen:
                    return False
                keys_seen.add(vkey(key))
                if not any(same(key, m) for m in members):
                    return False
                if len({vkey(m) for m in members}) != len(members):
                    return False
                old = self.members(key) if self.has_leader(key) else []
                old_keys = {vkey(m) for m in old}
                new_keys = {vkey(m) for m in members}
                if not old_keys <= new_keys:
                    return False
                for extra in new_keys - old_keys:
                    if extra in seen or extra in fresh_used:
                        return False
                    fresh_used.add(extra)
            return True
        if kind == "remove":
            return self.has_leader(op["v"])
        if kind == "pop":
            n = len(self.groups)
            return -n <= op["i"] < n
        if kind in ("sort", "sort_keep"):
            return True
        if kind in ("sort_by", "sort_by_keep"):
            order = op["order"]
            return len(order) == len(self.groups) and {vkey(v) for v in order} == {
                vkey(v) for v in self.leaders()
            }
        if kind == "replace_group_leader":
            members = self.members(op["l"]) if self.has_leader(op["l"]) else None
            return members is not None and any(same(op["m"], x) for x in members)
        return False


# --------------------------------------------------------------------------------------
# generation (pure function of the seed)


def _gen_ctor(rng, slots, models):
    """Draws a constructor operation for a free or existing slot."""
    live = [s for s in range(MAX_SLOTS) if models[s] is not None]
    free = [s for s in range(MAX_SLOTS) if models[s] is None]
    slot = rng.choice(free) if free else rng.randrange(MAX_SLOTS)
    kinds = ["new_list", "new_dict"] + (["copy"] * 2 if live else [])
    kind = rng.choice(kinds)
    if kind == "new_list":
        values = rng.sample(UNIVERSE, rng.randint(0, 7))
        return {"op": "new_list", "slot": slot, "values": values}
    if kind == "copy":
        return {"op": "copy", "slot": slot, "src": rng.choice(live)}
    if rng.random() < 0.2:
        # dict.fromkeys(keys, []): every key misses from its own (empty, shared) member list
        keys = rng.sample(UNIVERSE, rng.randint(1, 5))
        return {"op": "new_dict", "slot": slot, "items": [[k, []] for k in keys], "share": True}
    # dict constructor: groups over a sample of the universe
    values = rng.sample(UNIVERSE, rng.randint(1, 9))
    rng.shuffle(values)
    items = []
    while values:
        size = min(len(values), rng.choice([1, 1, 2, 3]))
        members, values = values[:size], values[size:]
        key = members[0]
        variant = rng.random()
        if variant < 0.25 and len(members) > 1:
            listed = members[1:]  # key missing from its own values: the constructor adds it
        else:
            listed = list(members)
            rng.shuffle(listed)
        items.append([key, listed])
    # "key already grouped elsewhere, own list empty": a member of another group listed as a key
    if rng.random() < 0.3:
        donors = [(k, ms) for k, ms in items if len([m for m in ms if not same(m, k)]) > 0]
        if donors:
            k, ms = rng.choice(donors)
            ghost = rng.choice([m for m in ms if not same(m, k)])
            items.insert(rng.randrange(len(items) + 1), [ghost, []])
    return {"op": "new_dict", "slot": slot, "items": items, "share": rng.random() < 0.3}


def model_of_ctor(op, models):
    if op["op"] == "new_list":
        return GLModel([[v, [v]] for v in op["values"]])
    if op["op"] == "copy":
        src = models[op["src"]]
        return src.clone() if src is not None else None
    groups = []
    for key, members in op["items"]:
        if not members and any(
            any(same(key, m) for m in ms) for k, ms in op["items"] if not same(k, key)
        ):
            continue  # ghost key
        ms = list(members)
        if not any(same(key, m) for m in ms):
            ms = ms + [key]
        groups.append([key, ms])
    return GLModel(groups)


def _gen_op(rng, slot, model: GLModel):
    """Draws one operation valid in ``model``'s current state."""
    leaders = model.leaders()
    contained = {vkey(v) for v in model.all_values()}
    fresh = [v for v in UNIVERSE if vkey(v) not in contained]
    options = ["sort", "sort_keep"]
    if leaders:
        options += ["group"] * 4 + ["group_list"] * 2 + ["remove", "pop", "sort_by", "sort_by_keep"]
        options += ["replace_group_leader"] * 2
        options += ["update"]
    if fresh:
        options += ["append"] * 2 + ["update"]
    kind = rng.choice(options)
    op = {"op": kind, "slot": slot}
    if kind == "group":
        op["d"], op["k"] = rng.choice(leaders), rng.choice(leaders)
    elif kind == "group_list":
        op["k"] = rng.choice(leaders)
        op["ds"] = rng.sample(leaders, rng.randint(0, min(3, len(leaders))))
    elif kind == "append":
        op["v"] = rng.choice(fresh)
    elif kind == "update":
        items = []
        pool = list(fresh)
        rng.shuffle(pool)
        for lead in rng.sample(leaders, rng.randint(0, min(2, len(leaders)))):
            extra = [pool.pop() for _ in range(min(len(pool), rng.randint(0, 2)))]
            members = list(model.members(lead)) + extra
            rng.shuffle(members)
            items.append([lead, members])
        for _ in range(rng.choice([0, 1, 1, 2, 3])):  # new leaders, appended in the order given
            if not pool:
                break
            key = pool.pop()
            extra = [pool.pop() for _ in range(min(len(pool), rng.randint(0, 2)))]
            members = [key] + extra
            rng.shuffle(members)
            items.append([key, members])
        rng.shuffle(items)
        op["items"] = items
    elif kind == "remove":
        op["v"] = rng.choice(leaders)
    elif kind == "pop":
        op["i"] = rng.randrange(-len(leaders), len(leaders))
    elif kind in ("sort_by", "sort_by_keep"):
        order = list(leaders)
        rng.shuffle(order)
        op["order"] = order
    elif kind == "replace_group_leader":
        lead = rng.choice(leaders)
        op["l"], op["m"] = lead, rng.choice(model.members(lead))
    if kind in ("sort_keep", "sort_by_keep"):
        op["dst"] = rng.randrange(MAX_SLOTS)
    return op


def apply_model(op, models):
    """Applies a decoded op to the per-slot models (pure)."""
    kind = op["op"]
    if kind in ("new_list", "new_dict", "copy"):
        models[op["slot"]] = model_of_ctor(op, models)
        return
    model = models[op["slot"]]
    if kind == "group":
        model.group(op["d"], op["k"])
    elif kind == "group_list":
        for d in op["ds"]:
            model.group(d, op["k"])
    elif kind == "append":
        model.append(op["v"])
    elif kind == "update":
        model.update(op["items"])
    elif kind == "remove":
        model.remove(op["v"])
    elif kind == "pop":
        model.pop(op["i"])
    elif kind == "sort":
        models[op["slot"]] = model.sorted()
    elif kind == "sort_keep":
        models[op["dst"]] = model.sorted()
    elif kind == "sort_by":
        models[op["slot"]] = model.sorted_by(op["order"])
    elif kind == "sort_by_keep":
        models[op["dst"]] = model.sorted_by(op["order"])
    elif kind == "replace_group_leader":
        model.replace_group_leader(op["l"], op["m"])


def _enc_op(op):
    out = dict(op)
    for key in ("d", "k", "v", "l", "m"):
        if key in out:
            out[key] = enc(out[key])
    for key in ("ds", "values", "order"):
        if key in out:
            out[key] = [enc(v) for v in out[key]]
    if "items" in out:
        out["items"] = [[enc(k), [enc(m) for m in ms]] for k, ms in out["items"]]
    return out


def _dec_op(op):
    out = dict(op)
    for key in ("d", "k", "v", "l", "m"):
        if key in out:
            out[key] = dec(out[key])
    for key in ("ds", "values", "order"):
        if key in out:
            out[key] = [dec(v) for v in out[key]]
    if "items" in out:
        out["items"] = [[dec(k), [dec(m) for m in ms]] for k, ms in out["items"]]
    return out


def generate(seed, idx, tier="quick") -> dict:
    """Spec of one run: a literal operation list, pure function of (seed, idx)."""
    rng = stream(seed, "glsim", idx, "ops")
    models: list = [None] * MAX_SLOTS
    ops = []
    n_ops = rng.randint(1, 30)
    op = _gen_ctor(rng, None, models)
    while len(ops) < n_ops + 1:
        if op is None:
            live = [s for s in range(MAX_SLOTS) if models[s] is not None]
            if rng.random() < 0.08 or not live:
                op = _gen_ctor(rng, None, models)
            else:
                slot = rng.choice(live)
                op = _gen_op(rng, slot, models[slot])
        apply_model(op, models)
        op["id"] = len(ops)
        ops.append(_enc_op(op))
        op = None
    return {"engine": "glsim", "property": PROP, "seed": seed, "idx": idx, "tier": tier, "ops": ops}


# --------------------------------------------------------------------------------------
# execution against the real GroupedList


class _Fail(Exception):
    def __init__(self, oracle, message, signature=None):
        super().__init__(message)
        self.oracle, self.message, self.signature = oracle, message, signature or {}


def _snapshot(gl):
    return canon([list(gl), [[k, list(v)] for k, v in gl.content.items()]])


def _multiset(values):
    return sorted(vkey(v) for v in values)


def check_list(gl, model: GLModel, slot: int, stats: Stats):
    """All per-list invariants of C13 and agreement with the model."""
    leaders = list(gl)
    where = f"slot {slot}"
    # structure
    for i, a in enumerate(leaders):
        for b in leaders[i + 1 :]:
            if same(a, b):
                raise _Fail("unique_leaders", f"{where}: leader {a!r} listed twice: {leaders!r}")
    if not hasattr(gl, "content"):
        raise _Fail("content_keys", f"{where}: no content attribute")
    keys = list(gl.content.keys())
    if len(keys) != len(leaders) or not all(any(same(k, lead) for lead in leaders) for k in keys):
        raise _Fail(
            "content_keys", f"{where}: list {leaders!r} differs from content keys {keys!r}"
        )
    seen: dict[str, object] = {}
    for key, members in gl.content.items():
        if not any(same(key, m) for m in members):
            raise _Fail("leader_in_group", f"{where}: leader {key!r} not in its group {members!r}")
        for m in members:
            if vkey(m) in seen:
                raise _Fail(
                    "disjoint_groups",
                    f"{where}: value {m!r} in groups {seen[vkey(m)]!r} and {key!r}",
                )
            seen[vkey(m)] = key
    # model agreement
    m_leaders = model.leaders()
    if len(m_leaders) != len(leaders) or not all(same(a, b) for a, b in zip(leaders, m_leaders)):
        raise _Fail("model_leaders", f"{where}: leaders {leaders!r}, model {m_leaders!r}")
    for lead in m_leaders:
        got = gl.content[lead]
        if _multiset(got) != _multiset(model.members(lead)):
            raise _Fail(
                "model_members",
                f"{where}: group {lead!r} = {got!r}, model {model.members(lead)!r}",
            )
    # lookups over the whole universe and NaN
    values = gl.values()
    if _multiset(values) != _multiset(model.all_values()):
        raise _Fail("values", f"{where}: values() {values!r}, model {model.all_values()!r}")
    content_values = [m for ms in gl.content.values() for m in ms]
    if _multiset(values) != _multiset(content_values):
        raise _Fail("values", f"{where}: values() {values!r} disagrees with content")
    for v in UNIVERSE + [NAN]:
        expected_members = model.members(v) if model.has_leader(v) else None
        got = gl.get(v)
        if expected_members is None:
            if got != []:
                raise _Fail("get", f"{where}: get({v!r}) = {got!r} for a non-leader")
            if gl.get(v, "dflt") != ["dflt"]:
                raise _Fail("get", f"{where}: get({v!r}, 'dflt') = {gl.get(v, 'dflt')!r}")
        elif _multiset(got) != _multiset(expected_members):
            raise _Fail("get", f"{where}: get({v!r}) = {got!r}, model {expected_members!r}")
        expected_group = model.find_group(v)
        got_group = gl.get_group(v)
        if expected_group is None:
            if not same(got_group, v):
                raise _Fail(
                    "get_group", f"{where}: get_group({v!r}) = {got_group!r} for an absent value"
                )
        elif not same(got_group, expected_group):
            sig = {}
            if not bool(expected_group) and same(got_group, v):
                sig = {"kind": "falsy_leader"}
                stats.probe("falsy_leader_lookup_failed")
            raise _Fail(
                "get_group",
                f"{where}: get_group({v!r}) = {got_group!r}, content/model say {expected_group!r}"
                f" (leaders {leaders!r})",
                sig,
            )
        if expected_group is not None and not bool(expected_group):
            stats.probe("falsy_leader_lookup")
        got_contains = gl.contains(v)
        if bool(got_contains) != model.contains(v):
            raise _Fail(
                "contains", f"{where}: contains({v!r}) = {got_contains!r}, model {model.contains(v)}"
            )


def execute(spec: dict) -> dict:
    """Runs the operation list of ``spec`` on real GroupedLists, checking every oracle after every
    operation on every live list."""
    import_autocarver()
    from AutoCarver.discretizers.utils.grouped_list import GroupedList  # pylint: disable=C0415

    from . import seams  # pylint: disable=C0415

    seams.install()
    stats = Stats()
    # GroupedList iterates no set today; if it ever does, the order is the scheduler's
    sched = seams.Scheduler(mode="prng", rng=stream(spec.get("seed"), "glsim", spec.get("idx"), "sched"), stats=stats)
    with seams.scheduling(sched):
        return _execute(spec, GroupedList, stats)


def _execute(spec, GroupedList, stats):  # pylint: disable=C0103
    log = EventLog(spec.get("seed"), ["glsim", spec.get("idx")])
    lists: list = [None] * MAX_SLOTS
    models: list = [None] * MAX_SLOTS
    executed, skipped = [], 0
    shape = []
    violation = None
    n_mutating = 0
    step = -1
    try:
        for step, raw in enumerate(spec["ops"]):
            op = _dec_op(raw)
            kind = op["op"]
            slot = op["slot"]
            # validity is decided by the model, not by trying the call
            if kind in ("new_list", "new_dict"):
                ok = True
            elif kind == "copy":
                ok = models[op["src"]] is not None
            else:
                ok = models[slot] is not None and models[slot].valid(op)
            if not ok:
                skipped += 1
                log.add("sim", kind, digest(raw), "skipped")
                continue
            before = [None if gl is None else _snapshot(gl) for gl in lists]
            prev_values = None if lists[slot] is None else list(lists[slot].values())
            prev_content = None if lists[slot] is None else {vkey(k): list(v) for k, v in lists[slot].content.items()}
            targets = {slot}
            replaced = set()  # slots whose object is replaced by a new one
            named = None  # leader of the group a remove/pop names
            if kind == "remove":
                named = op["v"]
            elif kind == "pop":
                named = models[slot].groups[op["i"]][0]
            try:
                if kind == "new_list":
                    lists[slot] = GroupedList(list(op["values"]))
                    replaced.add(slot)
                elif kind == "new_dict":
                    # the caller's dict: member lists with equal content may be one shared object
                    shared: dict[str, list] = {}
                    given = {}
                    for k, ms in op["items"]:
                        key = json.dumps([vkey(m) for m in ms])
                        if op.get("share") and key in shared:
                            given[k] = shared[key]
                        else:
                            given[k] = shared.setdefault(key, list(ms))
                    snapshot = {vkey(k): [vkey(m) for m in ms] for k, ms in given.items()}
                    lists[slot] = GroupedList(given)
                    replaced.add(slot)
                    if {vkey(k): [vkey(m) for m in ms] for k, ms in given.items()} != snapshot:
                        raise _Fail("ctor_input_untouched", f"the dict handed to the constructor was modified: {given!r}")
                    if op.get("share"):
                        stats.probe("ctor_dict_shared_member_lists")
                    if any(not ms for _, ms in op["items"]):
                        stats.probe("ctor_dict_ghost_key")
                elif kind == "copy":
                    lists[slot] = GroupedList(lists[op["src"]])
                    replaced.add(slot)
                    stats.probe("aliased_copy")
                elif kind == "group":
                    lists[slot].group(op["d"], op["k"])
                elif kind == "group_list":
                    lists[slot].group_list(list(op["ds"]), op["k"])
                elif kind == "append":
                    lists[slot].append(op["v"])
                elif kind == "update":
                    lists[slot].update({k: list(ms) for k, ms in op["items"]})
                elif kind == "remove":
                    lists[slot].remove(op["v"])
                elif kind == "pop":
                    lists[slot].pop(op["i"])
                elif kind == "sort":
                    lists[slot] = lists[slot].sort()
                    replaced.add(slot)
                elif kind == "sort_keep":
                    lists[op["dst"]] = lists[slot].sort()
                    replaced.add(op["dst"])
                    targets = {op["dst"]}
                elif kind == "sort_by":
                    lists[slot] = lists[slot].sort_by(list(op["order"]))
                    replaced.add(slot)
                elif kind == "sort_by_keep":
                    lists[op["dst"]] = lists[slot].sort_by(list(op["order"]))
                    replaced.add(op["dst"])
                    targets = {op["dst"]}
                elif kind == "replace_group_leader":
                    lists[slot].replace_group_leader(op["l"], op["m"])
                    if same(op["l"], op["m"]):
                        stats.probe("replace_leader_by_itself")
            except Exception as err:  # pylint: disable=W0718
                raise _Fail(
                    "op_raised",
                    f"valid operation {json.dumps(raw)} raised {type(err).__name__}: {err}",
                    {"exception": type(err).__name__},
                ) from err
            apply_model(op, models)
            executed.append(raw)
            shape.append(kind)
            if kind in MUTATING:
                n_mutating += 1
            stats.count("op_" + kind)
            log.add("sim", kind, digest(raw), "ok")
            # every live list is checked after every operation
            for s in range(MAX_SLOTS):
                if lists[s] is None:
                    continue
                if not isinstance(lists[s], GroupedList):
                    raise _Fail("result_type", f"slot {s}: {type(lists[s]).__name__} returned")
                check_list(lists[s], models[s], s, stats)
                if s not in targets and s not in replaced and before[s] is not None:
                    if _snapshot(lists[s]) != before[s]:
                        raise _Fail(
                            "aliasing",
                            f"slot {s} changed by {kind} on slot {slot}",
                        )
            # conservation: nothing disappears except through remove/pop (and the group named)
            if prev_values is not None and slot not in replaced:
                now = {vkey(v) for v in lists[slot].values()}
                gone = [v for v in prev_values if vkey(v) not in now]
                if gone:
                    allowed: list = []
                    if named is not None:
                        allowed = prev_content.get(vkey(named), [])
                    if not all(any(same(g, a) for a in allowed) for g in gone):
                        raise _Fail("conservation", f"slot {slot}: values {gone!r} vanished by {kind}")
            log.add("sim", "state", None, "ok", digest([None if g is None else _snapshot(g) for g in lists]))
    except _Fail as fail:
        violation = {
            "property": PROP,
            "oracle": fail.oracle,
            "step": step,
            "message": fail.message,
            "signature": dict({"oracle": fail.oracle}, **fail.signature),
        }
        log.add("sim", "violation", None, fail.oracle)
    final_groups = [
        len(ms) for gl in lists if gl is not None and hasattr(gl, "content") for ms in gl.content.values()
    ]
    nontrivial = n_mutating >= 3 and any(size >= 2 for size in final_groups)
    return {
        "fingerprint": log.fingerprint(),
        "violations": [violation] if violation else [],
        "stats": stats.as_dict(),
        "nontrivial": nontrivial,
        "distinct_key": digest(executed),
        "shape_key": digest(shape),
        "state_key": digest([None if g is None else canon_state(g) for g in lists]),
        "steps": len(executed),
        "skipped": skipped,
        "sim_time": log.seq,
    }


def canon_state(gl):
    if not hasattr(gl, "content"):
        return "no-content"
    return canon([list(gl), sorted([[vkey(k), _multiset(v)] for k, v in gl.content.items()])])


def sample_of(spec: dict) -> dict:
    return {"ops": spec["ops"]}


# --------------------------------------------------------------------------------------
# engine interface


class _Engine:
    name = "glsim"

    @staticmethod
    def generate(prop, seed, idx, tier):
        _ = prop
        return generate(seed, idx, tier)

    @staticmethod
    def execute(spec):
        return execute(spec)

    @staticmethod
    def sample_of(spec, res):
        _ = res
        return {"operations": spec["ops"]}

    @staticmethod
    def reductions(spec):
        """Candidate simplifications beyond dropping operations: shorten value lists."""
        for n, op in enumerate(spec["ops"]):
            for key in ("values", "ds", "items"):
                if key in op and len(op[key]) > 0:
                    for drop in range(len(op[key])):
                        new_op = dict(op)
                        new_op[key] = op[key][:drop] + op[key][drop + 1 :]
                        yield dict(spec, ops=spec["ops"][:n] + [new_op] + spec["ops"][n + 1 :])

    @staticmethod
    def plan(prop, tier):
        _ = prop
        quick = tier == "quick"
        return {
            "n_runs": 56_000 if quick else 1_500_000,
            "chunk": 500 if quick else 2500,
            "wall_budget_s": 100 if quick else 1500,
            "level": "exploration",
            "selfcheck_runs": 8,
            "rule": (
                "seeded histories of 1-30 valid GroupedList operations (constructors from list, dict "
                "incl. ghost keys, aliased copies; group, group_list, append, update, remove, pop, sort, "
                "sort_by, replace_group_leader) on up to 3 live lists over a 13-value universe with falsy "
                "values; every invariant and every lookup over the universe and NaN is checked on every "
                "live list after every operation against an ordered leader->members model. distinct = "
                "digest of the executed operation list; non-trivial = at least 3 mutating operations and a "
                "final group of size >= 2"
            ),
            "assumptions": [
                "sampled histories, not exhaustive enumeration (depth-bounded exhaustive enumeration would be model checking)",
                "universe of 13 str/int/float/sentinel values; NaN only as a lookup argument",
                "only operations valid by the model are issued (validity is decided by the model, not by trying the call)",
            ],
        }

    @staticmethod
    def components():
        return {
            "real": ["AutoCarver.discretizers.utils.grouped_list.GroupedList (working tree)", "numpy.sort", "pandas.isna"],
            "stub": [],
            "model": ["acsim.glsim.GLModel (ordered leader -> members)"],
        }


ENGINE = _Engine()
