"""C19: every listed malformed-input class x every class it is meaningful for x {fresh, fitted}.

A malformed call must raise AssertionError; on a fitted object values_orders, the JSON export and
transform must be identical before and after, and a following valid transform must succeed.
"""
from __future__ import annotations

import json

from . import worlds
from .core import canon_frame, digest
from .session import _Fail, parsed_json, state_digest

TARGET_FAULTS = ("T1", "T3", "Y1")
# classes whose fit takes y only for signature compatibility (unsupervised): target faults are not
# demanded of them (that would exceed the statement: nothing about the target can be malformed there)
UNSUPERVISED = ("ContinuousDiscretizer", "StringDiscretizer")

VARIANTS = {
    "T1": ["nan_cell"],
    "T2": ["one_class", "three_classes", "shifted_classes", "binary_for_continuous", "two_for_multiclass"],
    "T3": ["other_labels", "permuted_labels", "shorter", "longer"],
    "X1": ["ndarray", "list", "series", "dict"],
    "Y1": ["list", "ndarray", "frame"],
    "X2": ["drop_column"],
    "X2dev": ["drop_column_dev"],
    "K1": ["quant_in_qualitative", "quant_in_ordinal"],
    "X3": ["string_cell", "string_cell", "string_cell_category"],
    "X4": ["unranked_value"],
    "K2": ["gini", "other_family", "prefix", "capitalised", "empty", "none"],
    "R1": ["refit"],
}


def variants_for(cls, fault, world, target):
    opts = list(VARIANTS[fault])
    if fault == "T2":
        opts = {
            "BinaryCarver": ["one_class", "three_classes", "shifted_classes"],
            "ContinuousCarver": ["binary_for_continuous"],
            "MulticlassCarver": ["two_for_multiclass"],
        }[cls]
    if fault == "K1":
        kinds = {f["kind"] for f in world["features"]}
        opts = ["quant_in_qualitative"] + (["quant_in_ordinal"] if "ord" in kinds or True else [])
    if fault == "X1" and target == "transform":
        opts = ["ndarray", "list", "series", "dict"]
    # the dev sample of a carver is validated like the training sample: same fault classes on it
    if cls in worlds.CARVERS and world.get("dev") and target == "fit":
        opts = opts + {
            "T1": ["nan_cell_dev"],
            "T3": ["other_labels_dev", "shorter_dev"],
            "X1": ["ndarray_dev", "list_dev"],
            "Y1": ["list_dev", "ndarray_dev"],
        }.get(fault, [])
    return opts


def meaningful(cls, fault, world, phase, target):
    kinds = {f["kind"] for f in world["features"]}
    carver = cls in worlds.CARVERS
    if fault in ("T2", "K2"):
        return carver
    if fault == "X2dev":
        return carver and bool(world.get("dev"))
    if fault == "K1":
        return (carver or cls == "Discretizer") and "quant" in kinds
    if fault == "X3":
        return "quant" in kinds
    if fault == "X4":
        # numeric-valued ordinal columns go through the string conversion step, which appends any
        # unranked value to the ranking by design: only string-valued ordinal features qualify
        return any(f["kind"] == "ord" and f.get("sub") != "num" for f in world["features"])
    if fault in TARGET_FAULTS and cls in UNSUPERVISED:
        return False
    return True


def x4_meaningful(world, column, values):
    """A feature whose most frequent modality is rarer than min_freq is documented as not
    discretized at all: a value absent from its ranking cannot be demanded to be refused."""
    present = [v for v in values if v is not None and v == v]  # noqa: PLR0124
    if not present:
        return False
    counts: dict = {}
    for v in present:
        counts[v] = counts.get(v, 0) + 1
    _ = column
    return max(counts.values()) / len(values) >= world["sut"]["params"]["min_freq"]


def mutate(sess, fault, variant, op, X, y, kwargs):
    """Returns (X, y, kwargs, ctor_overrides, description) with the fault injected."""
    import numpy as np  # pylint: disable=C0415
    import pandas as pd  # pylint: disable=C0415

    world = sess.world
    n = len(X)
    pos = op["pos"] % max(1, n)
    feats = world["features"]
    desc = {"fault": fault, "variant": variant}
    ctor = None
    if variant.endswith("_dev") and fault in ("T1", "T3", "X1", "Y1"):
        # same fault class, injected into the dev sample handed to a carver's fit
        if "X_dev" not in kwargs:
            kwargs = {"X_dev": sess.Xd.copy(deep=True), "y_dev": sess.yd.copy(deep=True)}
        xd, yd = kwargs["X_dev"], kwargs["y_dev"]
        posd = op["pos"] % max(1, len(xd))
        if variant == "nan_cell_dev":
            yd = yd.astype("float64") if yd.dtype.kind in "if" else yd.astype("object")
            yd.iloc[posd] = np.nan
        elif variant == "other_labels_dev":
            if yd.index.dtype.kind in "iu":
                yd = pd.Series(yd.values, index=yd.index + 100000, name=yd.name)
            else:
                yd = pd.Series(yd.values, index=[f"zz{lab}" for lab in yd.index], name=yd.name)
        elif variant == "shorter_dev":
            yd = yd.iloc[:-1]
        elif fault == "X1" and variant == "ndarray_dev":
            xd = xd.values
        elif fault == "X1" and variant == "list_dev":
            xd = xd.values.tolist()
        elif fault == "Y1" and variant == "list_dev":
            yd = yd.tolist()
        elif fault == "Y1" and variant == "ndarray_dev":
            yd = yd.values
        return X, y, {"X_dev": xd, "y_dev": yd}, None, desc
    if fault == "T1":
        y = y.astype("float64") if y.dtype.kind in "if" else y.astype("object")
        y.iloc[pos] = np.nan
        desc["row"] = pos
    elif fault == "T2":
        if variant == "one_class":
            y = pd.Series([0] * n, index=y.index, name=y.name)
        elif variant == "three_classes":
            y = y.copy()
            y.iloc[pos] = 2
        elif variant == "shifted_classes":
            y = y + 1
        elif variant == "binary_for_continuous":
            y = (y > y.median()).astype(int)
            if y.nunique() < 2:
                y.iloc[0] = 1 - y.iloc[0]
        elif variant == "two_for_multiclass":
            classes = sorted(y.astype(str).unique())
            keep = {classes[0]: classes[0]}
            y = y.astype(str).map(lambda c: keep.get(c, classes[1]))
        if "y_dev" in kwargs and variant in ("two_for_multiclass",):
            classes_d = sorted(kwargs["y_dev"].astype(str).unique())
            kwargs = dict(kwargs, y_dev=kwargs["y_dev"].astype(str).map(lambda c: classes_d[0] if c == classes_d[0] else classes_d[1]))
    elif fault == "T3":
        if variant == "other_labels":
            if y.index.dtype.kind in "iu":
                y = pd.Series(y.values, index=y.index + 100000, name=y.name)
            else:
                y = pd.Series(y.values, index=[f"zz{lab}" for lab in y.index], name=y.name)
        elif variant == "permuted_labels":
            labels = list(y.index)
            labels = labels[1:] + labels[:1]
            y = pd.Series(y.values, index=labels, name=y.name)
        elif variant == "shorter":
            y = y.iloc[:-1]
        elif variant == "longer":
            extra_label = "zz_extra" if y.index.dtype.kind not in "iu" else int(max(y.index)) + 7
            y = pd.concat([y, pd.Series([y.iloc[0]], index=[extra_label])])
    elif fault == "X1":
        if variant == "ndarray":
            X = X.values
        elif variant == "list":
            X = X.values.tolist()
        elif variant == "series":
            X = X[X.columns[0]]
        else:
            X = {c: X[c].tolist() for c in X.columns}
    elif fault == "Y1":
        if variant == "list":
            y = y.tolist()
        elif variant == "ndarray":
            y = y.values
        else:
            y = y.to_frame()
    elif fault in ("X2", "X2dev"):
        names = sorted(f["name"] for f in feats)
        if op.get("_kept_raw"):
            names = sorted(op["_kept_raw"])
        col = names[op["f"] % len(names)]
        desc["column"] = col
        if fault == "X2":
            X = X.drop(columns=[col])
        else:
            kwargs = dict(kwargs, X_dev=kwargs["X_dev"].drop(columns=[col]))
    elif fault == "K1":
        quant = sorted(f["name"] for f in feats if f["kind"] == "quant")
        col = quant[op["f"] % len(quant)]
        desc["column"] = col
        ctor = {"also_qualitative": col} if variant == "quant_in_qualitative" else {"also_ordinal": col}
    elif fault == "X3":
        quant = sorted(f["name"] for f in feats if f["kind"] == "quant")
        col = quant[op["f"] % len(quant)]
        desc["column"], desc["row"] = col, pos
        X[col] = X[col].astype("object")
        X.iat[pos, X.columns.get_loc(col)] = "abc"
        if variant == "string_cell_category":
            X[col] = X[col].astype("category")  # same values held by a pandas categorical column
    elif fault == "X4":
        ords = sorted(f["name"] for f in feats if f["kind"] == "ord" and f.get("sub") != "num")
        col = ords[op["f"] % len(ords)]
        desc["column"], desc["row"] = col, pos
        X[col] = X[col].astype("object")
        X.iat[pos, X.columns.get_loc(col)] = "NOT_RANKED"
    elif fault == "K2":
        cls = world["sut"]["class"]
        valid = ["kruskal"] if cls == "ContinuousCarver" else ["tschuprowt", "cramerv"]
        ctor = {
            "sort_by": {
                "gini": "gini",
                "other_family": "tschuprowt" if cls == "ContinuousCarver" else "kruskal",
                "prefix": valid[-1][:-1],  # 'cramer' / 'kruska'
                "capitalised": valid[0].capitalize(),
                "empty": "",
                "none": None,
            }[variant]
        }
    return X, y, kwargs, ctor, desc


def build_with(sess, ctor):
    """Builds the system under simulation with a malformed constructor argument."""
    from AutoCarver import BinaryCarver, ContinuousCarver, MulticlassCarver  # pylint: disable=C0415
    from AutoCarver.discretizers import Discretizer  # pylint: disable=C0415

    world = sess.world
    if ctor is None:
        return sess.build()
    cls = world["sut"]["class"]
    params = world["sut"]["params"]
    quant, cat, ordi, orders = worlds.feature_lists(world, sess.listing_perm())
    if "also_qualitative" in ctor:
        cat = cat + [ctor["also_qualitative"]]
    if "also_ordinal" in ctor:
        ordi = ordi + [ctor["also_ordinal"]]
        orders = dict(orders, **{ctor["also_ordinal"]: ["a", "b"]})
    extra = dict(params.get("extra_kwargs", {}))
    if cls == "Discretizer":
        return Discretizer(
            quantitative_features=quant,
            qualitative_features=cat,
            min_freq=params["min_freq"],
            ordinal_features=ordi,
            values_orders=orders,
            copy=params["copy"],
            n_jobs=params["n_jobs"],
            **extra,
        )
    kwargs = dict(
        min_freq=params["min_freq"],
        quantitative_features=quant,
        qualitative_features=cat,
        ordinal_features=ordi,
        values_orders=orders,
        max_n_mod=params["max_n_mod"],
        min_freq_mod=params["min_freq_mod"],
        output_dtype=params["output_dtype"],
        dropna=params["dropna"],
        copy=params["copy"],
        n_jobs=params["n_jobs"],
        **extra,
    )
    sort_by = ctor.get("sort_by", params.get("sort_by"))
    if cls == "BinaryCarver":
        return BinaryCarver(sort_by=sort_by, **kwargs)
    if cls == "MulticlassCarver":
        return MulticlassCarver(sort_by=sort_by, **kwargs)
    if "sort_by" in ctor:
        kwargs["sort_by"] = ctor["sort_by"]
    return ContinuousCarver(**kwargs)


def observe(sess, obj, frames):
    """What must not change across a rejected call."""
    state = state_digest(obj)
    text = sess.lib(lambda: json.dumps(obj.to_json()))
    doc = parsed_json(text[1]) if text[0] == "ok" else [text[0], type(text[1]).__name__]
    outs = []
    for frame in frames:
        outcome, _ = sess.call_transform(obj, frame)
        outs.append(digest(canon_frame(outcome[1])) if outcome[0] == "ok" else [outcome[0], type(outcome[1]).__name__])
    return state, doc, outs


def bad_call(sess, op, step):
    world = sess.world
    cls = world["sut"]["class"]
    fault = op["fault"]
    phase = op["phase"]
    target = op.get("target", "fit")
    if fault not in ("X1", "X2") or phase == "fresh":
        target = "fit"
    if not meaningful(cls, fault, world, phase, target):
        sess.log.add("live", "bad_call", fault, "not_meaningful")
        return
    if fault in ("K1", "K2"):
        phase = "fresh"  # a malformed constructor creates a new object
    X, y, kwargs = sess.fit_args()
    reloaded = phase == "fitted" and sess.generation > 0
    if reloaded:
        # a reloaded object is a BaseDiscretizer: its fit takes (X, y) only
        kwargs = {}
        if fault == "X2dev":
            sess.log.add("live", "bad_call", fault, "not_meaningful")
            return
    if fault == "X2dev" and not kwargs:
        kwargs = {"X_dev": sess.Xd.copy(deep=True), "y_dev": sess.yd.copy(deep=True)}
    opts = variants_for(cls, fault, world, target)
    if reloaded:
        opts = [o for o in opts if not o.endswith("_dev")]
    variant = opts[op["variant"] % len(opts)]
    if phase == "fitted":
        if sess.live is None:
            sess.log.add("live", "bad_call", fault, "no_fitted_object")
            return
        model_raw = sorted({sess.model.raw_of(f) for f in sess.model.features}) if sess.model else []
        if fault == "X2" and target == "transform":
            if not model_raw:
                return
            op = dict(op, _kept_raw=model_raw)
    if fault == "R1":
        phase = "fitted"  # a second fit needs a first one
        if sess.live is None:
            sess.log.add("live", "bad_call", fault, "no_fitted_object")
            return
    X, y, kwargs, ctor, desc = mutate(sess, fault, variant, op, X, y, kwargs)
    if fault == "X4" and cls != "OrdinalDiscretizer" and not x4_meaningful(world, desc["column"], X[desc["column"]].tolist()):
        sess.log.add("live", "bad_call", fault, "not_meaningful")
        return
    sig = {"class": cls, "fault": fault, "variant": variant, "phase": phase, "target": target}
    where = f"step {step} {cls}.{target}() with {json.dumps(desc)} on a {phase} object"
    sess.stats.fault(f"{fault}:{variant}")
    sess.stats.count(f"triple:{cls}:{fault}:{phase}")
    sess.nontrivial_flags.add("fault_fired")

    if phase == "fresh":
        outcome = sess.lib(build_with, sess, ctor)
        if outcome[0] == "ok":
            obj = outcome[1]
            outcome = sess.lib(obj.fit, X, y, **kwargs)
        sess.log.add("fresh", "bad_call", digest(desc), outcome[0], type(outcome[1]).__name__ if outcome[0] != "ok" else None)
        _demand_assertion(outcome, where, sig)
        return

    # fitted object: record, call, compare
    frames = [sess.X]
    if sess.Xd is not None:
        frames.append(sess.Xd)
    frames.append(sess.X.iloc[: max(1, len(sess.X) // 3)])
    before = observe(sess, sess.live, frames)
    if target == "transform":
        outcome = sess.lib(sess.live.transform, X)
    else:
        outcome = sess.lib(sess.live.fit, X, y, **kwargs)
    sess.log.add("live", "bad_call", digest(desc), outcome[0], type(outcome[1]).__name__ if outcome[0] != "ok" else None)
    sess.stats.probe("rejected_call_on_fitted_object")
    after = observe(sess, sess.live, frames)
    # atomicity first: whatever the call answered, the fitted object must be what it was
    names = ["values_orders/state", "JSON export", "transform"]
    for name, a, b in zip(names, before, after):
        if a != b:
            raise _Fail(
                "C19",
                "fitted_object_unchanged",
                f"{where}: {name} changed across the rejected call (call -> {outcome[0]}"
                f"{'' if outcome[0] == 'ok' else ' ' + type(outcome[1]).__name__})",
                dict(sig, changed=name, outcome=outcome[0] if outcome[0] == "ok" else type(outcome[1]).__name__),
            )
    _demand_assertion(outcome, where, sig)
    follow, _ = sess.call_transform(sess.live, sess.X)
    if follow[0] != "ok" and before[2][0] and not isinstance(before[2][0], list):
        raise _Fail("C19", "still_usable", f"{where}: the following valid transform -> {follow[0]}", sig)


def _demand_assertion(outcome, where, sig):
    if outcome[0] == "ok":
        raise _Fail("C19", "must_raise_assertion", f"{where}: accepted", dict(sig, outcome="accepted"))
    if outcome[0] == "error":
        raise _Fail(
            "C19",
            "must_raise_assertion",
            f"{where}: raised {type(outcome[1]).__name__}: {str(outcome[1])[:160]}",
            dict(sig, outcome=type(outcome[1]).__name__),
        )


def run_c19(sess):
    from .models import DModel, ModelInvalid  # pylint: disable=C0415

    sess.fork_sched("fit")
    sess.frames()
    needs_fitted = any(
        op["op"] == "bad_call" and (op["phase"] == "fitted" or op["fault"] == "R1") for op in sess.spec["ops"]
    )
    if needs_fitted:
        obj = sess.build()
        X, y, kwargs = sess.fit_args()
        outcome = sess.lib(obj.fit, X, y, **kwargs)
        sess.log.add("live", "fit", None, outcome[0])
        if outcome[0] != "ok":
            name = type(outcome[1]).__name__
            sess.world_rejected[name] = sess.world_rejected.get(name, 0) + 1
        else:
            sess.live = obj
            try:
                sess.model = DModel(obj, worlds.expected_sentinels(sess.world))
            except ModelInvalid:
                sess.model = None
    for step, op in enumerate(sess.spec["ops"]):
        sess.cur_step = step
        sess.fork_sched(op.get("id", step))
        if op["op"] == "restart":
            if sess.live is not None:
                sess.restart(op.get("chain", 1))
        elif op["op"] == "bad_call":
            bad_call(sess, op, step)
        sess.executed.append(op)
