"""Stub cross-check (thorough tier only): the same world fitted with the REAL mechanisms — the
interpreter's own hash seed (no SimSet) and the real multiprocessing.Pool (no SimPool) — in a fresh
interpreter.  Real, uncontrolled schedule: this is a fidelity check of the stubs, not a simulated run.

    python -m acsim.realcheck <spec.json> <n_jobs>      prints one JSON line {"digest": ...}
"""
from __future__ import annotations

import json
import sys
import warnings


def reference_digest(world, n_jobs, install_seams):
    """Digest of (kept features, fitted orders, outputs on the training frame and on a restart)."""
    from . import seams, worlds  # pylint: disable=C0415
    from .core import canon_frame, canon_grouped_list, digest, import_autocarver  # pylint: disable=C0415

    import_autocarver()
    if install_seams:
        seams.install()
    X, y = worlds.build_frame(world, "train")
    xd = yd = None
    if world.get("dev"):
        xd, yd = worlds.build_frame(world, "dev")
    obj = worlds.build_sut(world, overrides={"n_jobs": n_jobs})
    try:
        obj.fit(X.copy(deep=True), y.copy(deep=True), **worlds.fit_kwargs(world, xd, yd))
    except AssertionError:
        return digest(["fit-rejected"])
    except Exception as err:  # pylint: disable=W0718
        return digest(["fit-error", type(err).__name__])
    feats = sorted(str(f) for f in obj.features)
    orders = {f: canon_grouped_list(obj.values_orders[f]) for f in feats}
    try:
        out = obj.transform(X.copy(deep=True))
        cf = canon_frame(out)
        outs = {f: cf["values"].get(f) for f in feats}
    except Exception as err:  # pylint: disable=W0718
        outs = ["transform-error", type(err).__name__]
    # restart across the process boundary: the JSON string is what survives
    text = json.dumps(obj.to_json())
    return digest([feats, orders, outs]), text


def main():
    warnings.simplefilter("ignore")
    with open(sys.argv[1], encoding="utf-8") as fobj:
        spec = json.load(fobj)
    mode = sys.argv[2]
    if mode == "fit":
        res = reference_digest(spec["world"], int(sys.argv[3]), install_seams=False)
        print(json.dumps({"digest": res[0] if isinstance(res, tuple) else res}))
    elif mode == "batch":
        # digests of many generated worlds under THIS interpreter's hash seed (no SimSet, n_jobs=1)
        from . import pairsim  # pylint: disable=C0415

        prop, seed, tier = spec["property"], spec["seed"], spec["tier"]
        out = {}
        for idx in spec["indices"]:
            world = pairsim.generate(prop, seed, idx, tier)["world"]
            res = reference_digest(world, 1, install_seams=False)
            out[str(idx)] = res[0] if isinstance(res, tuple) else res
        print(json.dumps({"digests": out}))
    elif mode == "load":
        # cross-process restart: load the JSON saved by another process and transform
        from . import worlds  # pylint: disable=C0415
        from .core import canon_frame, digest, import_autocarver  # pylint: disable=C0415

        import_autocarver()
        from AutoCarver import load_carver  # pylint: disable=C0415
        from AutoCarver.discretizers import load_discretizer  # pylint: disable=C0415

        world = spec["world"]
        loader = load_carver if worlds.is_carver(world) else load_discretizer
        try:
            obj = loader(json.loads(spec["saved_json"]))
        except Exception as err:  # pylint: disable=W0718
            print(json.dumps({"load_error": f"{type(err).__name__}: {str(err)[:200]}"}))
            return
        X, _ = worlds.build_frame(world, "train")
        feats = sorted(str(f) for f in obj.features)
        try:
            cf = canon_frame(obj.transform(X.copy(deep=True)))
            outs = {f: cf["values"].get(f) for f in feats}
        except Exception as err:  # pylint: disable=W0718
            outs = ["transform-error", type(err).__name__]
        again = json.dumps(obj.to_json())
        print(json.dumps({"digest": digest([feats, outs]), "json_again": again}))


if __name__ == "__main__":
    main()
