"""Seams owned by the simulator: SimSet (hash-seed iteration order) and SimPool (worker pool).

Installed by rebinding module-level names of AutoCarver modules; no source hook is needed.
"""
from __future__ import annotations

import pickle
from contextlib import contextmanager

from .core import HarnessError, digest

# --------------------------------------------------------------------------------------
# scheduler: every schedule decision goes through here


class Scheduler:
    """Decides every schedule choice, from a PRNG ('prng'), from an explicit list ('explicit'),
    or as the identity ('identity': first option / sorted order / submit order).

    Decisions are logged as they are taken; logging draws nothing.
    """

    def __init__(self, mode: str = "identity", rng=None, decisions=None, stats=None):
        assert mode in ("identity", "prng", "explicit")
        self.mode = mode
        self.rng = rng
        self.replay = list(decisions) if decisions is not None else None
        self.cursor = 0
        self.decisions: list = []  # [kind, n, choice]
        self.stats = stats
        self.enabled = True  # False: seams behave like the identity without logging

    def fork(self, rng):
        """Same log, other PRNG (used to key schedule draws by operation id)."""
        self.rng = rng

    def choose(self, kind: str, n: int) -> int:
        """Chooses an int in [0, n)."""
        if n <= 0:
            raise HarnessError(f"choose({kind}, {n})")
        if n == 1:
            return 0  # not a decision: neither drawn nor logged
        if not self.enabled or self.mode == "identity":
            choice = 0
        elif self.mode == "prng":
            choice = self.rng.randrange(n)
        else:
            if self.cursor < len(self.replay):
                choice = self.replay[self.cursor][2] % n
                self.cursor += 1
            else:
                choice = 0
        if self.enabled:
            self.decisions.append([kind, n, choice])
        return choice

    def permutation(self, kind: str, n: int) -> list[int]:
        """A permutation of range(n) (Fisher-Yates through choose, so it is logged)."""
        items = list(range(n))
        out = []
        while items:
            out.append(items.pop(self.choose(kind, len(items))))
        return out

    def signature(self) -> str:
        return digest(self.decisions)

    def nontrivial(self) -> bool:
        """Whether at least one decision differed from the identity schedule."""
        return any(choice != 0 for _, n, choice in self.decisions if n > 1)


_CURRENT: list = [Scheduler()]


def current() -> Scheduler:
    return _CURRENT[-1]


@contextmanager
def scheduling(sched: Scheduler):
    """Makes ``sched`` the scheduler seen by the seams."""
    _CURRENT.append(sched)
    try:
        yield sched
    finally:
        _CURRENT.pop()


# --------------------------------------------------------------------------------------
# N1: iteration order of sets of feature names


class SimSet(set):
    """``set`` whose iteration order is a scheduler-chosen permutation of the elements sorted by
    repr, so the interpreter's hash seed has no influence."""

    def __iter__(self):
        items = sorted(set.__iter__(self), key=repr)
        sched = current()
        if sched.stats is not None and sched.enabled and len(items) > 1:
            sched.stats.count("simset_iterations")
        perm = sched.permutation("set_order", len(items)) if items else []
        if sched.stats is not None and perm != sorted(perm):
            sched.stats.fault("set_iteration_permuted")
        return iter([items[i] for i in perm])


# --------------------------------------------------------------------------------------
# N2/N3: worker pool


class _Task:
    __slots__ = ("seq", "func", "args", "kwds", "blob", "state", "result_blob", "is_error")

    def __init__(self, seq, func, args, kwds):
        self.seq = seq
        self.func, self.args, self.kwds = func, args, kwds
        self.blob = None  # pickled (func, args, kwds)
        self.state = "queued"  # queued -> running -> done
        self.result_blob = None
        self.is_error = False


class _AsyncResult:
    def __init__(self, pool, task):
        self._pool, self._task = pool, task

    def get(self, timeout=None):
        _ = timeout
        self._pool._drive_until(self._task)  # pylint: disable=W0212
        value = pickle.loads(self._task.result_blob)
        if self._task.is_error:
            raise value
        return value

    def ready(self):
        return self._task.state == "done"


class SimPool:
    """In-process stand-in for ``multiprocessing.Pool`` with scheduler-owned interleaving.

    Semantics copied from the real pool: arguments and results cross a pickle boundary,
    worker-side mutation is lost, exceptions are re-raised in the parent, at most
    ``processes`` tasks are in flight, completion order is arbitrary among running tasks.
    """

    def __init__(self, processes=None, *args, **kwargs):
        _ = args, kwargs
        self.processes = max(1, int(processes or 1))
        self.tasks: list[_Task] = []
        self.closed = False
        self.completion_order: list[int] = []
        sched = current()
        if sched.stats is not None:
            sched.stats.count("pools")

    # context manager like the real one (terminate on exit)
    def __enter__(self):
        return self

    def __exit__(self, exc_type, exc, tb):
        self.terminate()
        return False

    def terminate(self):
        self.closed = True
        sched = current()
        if sched.stats is not None:
            undelivered = [t for t in self.tasks if t.state != "done"]
            if undelivered:
                sched.stats.count("pool_tasks_dropped_at_exit", len(undelivered))
            order = self.completion_order
            if order != sorted(order):
                sched.stats.fault("pool_reorder")
            if len(self.tasks) > self.processes:
                sched.stats.probe("pool_more_tasks_than_workers")

    def close(self):
        self.closed = True

    def join(self):
        pass

    # -- submission
    def _submit(self, func, args=(), kwds=None) -> _Task:
        if self.closed:
            raise ValueError("Pool not running")
        sched = current()
        task = _Task(len(self.tasks), func, tuple(args), dict(kwds or {}))
        # snapshot instant is a scheduler choice: 0 = at submit, 1 = deferred to start
        if sched.choose("pool_snapshot", 2) == 0:
            self._snapshot(task)
        elif sched.stats is not None:
            sched.stats.fault("pool_deferred_snapshot")
        self.tasks.append(task)
        if sched.stats is not None:
            sched.stats.count("pool_tasks")
        return task

    @staticmethod
    def _snapshot(task: _Task):
        if task.blob is None:
            task.blob = pickle.dumps((task.func, task.args, task.kwds), protocol=pickle.HIGHEST_PROTOCOL)
            sched = current()
            if sched.stats is not None:
                sched.stats.count("pool_bytes_pickled", len(task.blob))
            task.func = task.args = task.kwds = None

    def apply_async(self, func, args=(), kwds=None, callback=None, error_callback=None):
        _ = callback, error_callback
        return _AsyncResult(self, self._submit(func, args, kwds))

    def apply(self, func, args=(), kwds=None):
        return self.apply_async(func, args, kwds).get()

    def imap_unordered(self, func, iterable, chunksize=1):
        _ = chunksize
        tasks = [self._submit(func, (item,)) for item in iterable]
        return self._unordered_iter(tasks)

    def _unordered_iter(self, tasks):
        delivered: set[int] = set()
        while len(delivered) < len(tasks):
            # deliver completed tasks in completion order
            pending = [t for t in tasks if t.seq not in delivered and t.state == "done"]
            if not pending:
                self._step()
                continue
            pending.sort(key=lambda t: self.completion_order.index(t.seq))
            task = pending[0]
            delivered.add(task.seq)
            value = pickle.loads(task.result_blob)
            if task.is_error:
                raise value
            yield value

    def imap(self, func, iterable, chunksize=1):
        _ = chunksize
        handles = [self.apply_async(func, (item,)) for item in iterable]
        return (h.get() for h in handles)

    def map(self, func, iterable, chunksize=None):
        return list(self.imap(func, iterable, chunksize))

    # -- scheduling
    def _step(self):
        """One scheduling decision: start the oldest queued task or complete a running one."""
        sched = current()
        queued = [t for t in self.tasks if t.state == "queued"]
        running = [t for t in self.tasks if t.state == "running"]
        options = []
        if queued and len(running) < self.processes:
            options.append(("start", queued[0]))
        for task in running:
            options.append(("complete", task))
        if not options:
            raise HarnessError("SimPool: nothing runnable while a result is awaited")
        kind, task = options[sched.choose("pool_step", len(options))]
        if kind == "start":
            self._snapshot(task)
            task.state = "running"
        else:
            self._run(task)

    def _run(self, task: _Task):
        sched = current()
        func, args, kwds = pickle.loads(task.blob)
        # the body is the real function on the unpickled copy; a forked worker shares the parent's
        # hash seed, so set-iteration decisions inside the body stay under the same scheduler
        was_enabled = sched.enabled
        try:
            value = func(*args, **kwds)
            task.is_error = False
        except Exception as err:  # pylint: disable=W0718
            value = err
            task.is_error = True
            if sched.stats is not None:
                sched.stats.fault("pool_worker_exception")
        finally:
            sched.enabled = was_enabled
        try:
            task.result_blob = pickle.dumps(value, protocol=pickle.HIGHEST_PROTOCOL)
        except Exception as err:  # pylint: disable=W0718
            # the real pool wraps this into MaybeEncodingError
            task.result_blob = pickle.dumps(
                RuntimeError(f"Error sending result: {type(err).__name__}: {err}")
            )
            task.is_error = True
        if sched.stats is not None:
            sched.stats.count("pool_bytes_pickled", len(task.result_blob))
            sched.stats.fault("pool_isolation")
        task.state = "done"
        self.completion_order.append(task.seq)

    def _drive_until(self, task: _Task):
        while task.state != "done":
            self._step()


# --------------------------------------------------------------------------------------
# installation

_PATCHED: list = []

# every module of the discretizers and carvers packages: today only base_discretizers (nan_unique
# excluded), base_carver and discretizers iterate over a set of feature names, but a set iterated
# anywhere else must come under the scheduler too
SET_MODULES = (
    "AutoCarver.discretizers.utils.base_discretizers",
    "AutoCarver.carvers.base_carver",
    "AutoCarver.discretizers.discretizers",
    "AutoCarver.discretizers.utils.grouped_list",
    "AutoCarver.discretizers.utils.qualitative_discretizers",
    "AutoCarver.discretizers.utils.quantitative_discretizers",
    "AutoCarver.discretizers.utils.type_discretizers",
    "AutoCarver.discretizers.utils.serialization",
    "AutoCarver.carvers.binary_carver",
    "AutoCarver.carvers.continuous_carver",
    "AutoCarver.carvers.multiclass_carver",
)
def install():
    """Binds ``set`` and ``Pool`` in the AutoCarver modules to the simulated ones (idempotent).

    ``Pool`` is replaced wherever a module of the discretizers / carvers packages holds a module-level
    ``Pool`` (discovered, not listed: a refactoring that moves the pool code keeps the seam), and on
    the ``multiprocessing`` module itself for code that reaches it as ``multiprocessing.Pool``.
    """
    import importlib  # pylint: disable=C0415
    import multiprocessing  # pylint: disable=C0415

    if _PATCHED:
        return
    pools = 0
    for name in SET_MODULES:
        mod = importlib.import_module(name)
        mod.set = SimSet
        _PATCHED.append((mod, "set"))
        if hasattr(mod, "Pool"):
            mod.Pool = SimPool
            _PATCHED.append((mod, "Pool"))
            pools += 1
    if pools == 0:
        raise HarnessError("no AutoCarver module holds a module-level Pool to replace")
    multiprocessing.Pool = SimPool
    _PATCHED.append((multiprocessing, "Pool"))


def report() -> dict:
    """Which components ran real code and which ran a stub."""
    return {
        "real": [
            "AutoCarver/* from the working tree (all carvers, discretizers, GroupedList, serialization)",
            "pandas",
            "numpy",
            "scipy",
            "scikit-learn",
            "json",
            "pickle",
        ],
        "stub": [
            "multiprocessing.Pool -> acsim.seams.SimPool (in-process, pickle boundary, scheduler-chosen start/completion order)",
            "builtin set in base_discretizers/base_carver/discretizers -> acsim.seams.SimSet (scheduler-chosen iteration order)",
            "user's file system -> SimDisk (in-memory name->JSON string store)",
        ],
        "not_imported": ["AutoCarver.selectors"],
    }
