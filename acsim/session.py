"""session: long-lived fitted objects driven through seeded histories with restart faults, unseen-data
faults, manual edits and malformed calls (C04, C05, C06, C07, C17, C19)."""
from __future__ import annotations

import contextlib
import io
import json
import math
import pickle

from . import seams, worlds
from .core import (
    EventLog,
    HarnessError,
    Stats,
    canon,
    canon_frame,
    canon_grouped_list,
    digest,
    import_autocarver,
    stream,
)
from .glsim import same, vkey
from .models import REJECT, DModel, ModelInvalid, is_nan, label_equal, py

PROPS = ("C04", "C05", "C06", "C07", "C17", "C19")


class _Sink(io.TextIOBase):
    """The library prints (ChainedDiscretizer's unknown-value notice); checks keep stdout clean."""

    def write(self, text):
        return len(text)


_DEVNULL = _Sink()


class _Fail(Exception):
    def __init__(self, prop, oracle, message, signature=None):
        super().__init__(message)
        self.prop, self.oracle, self.message = prop, oracle, message
        self.signature = dict({"oracle": oracle}, **(signature or {}))


# ======================================================================================
# generation: world + abstract operation list, pure function of (prop, seed, idx)

UNSEEN_KINDS = (
    "unseen_category",
    "unseen_nan",
    "out_of_range",
    "extreme_magnitude",
    "equal_other_type",
    "borrowed_category",  # a value this feature never saw but another qualitative feature knows
)


def _gen_frame(rng, world, prop, allow_inject, want_pure=False):
    """A literal frame recipe."""
    bases = ["train"] * 4 + ["probe"] * 2 + (["dev"] * 2 if world.get("dev") else [])
    base = rng.choice(bases)
    n = {"train": world["n"], "dev": len(world["dev"]["index"]) if world.get("dev") else 0, "probe": 0}[base]
    recipe = {"base": base, "rows": None, "index": "keep", "inject": [], "extra_cols": rng.random() < 0.4}
    if base != "probe":
        mode = rng.choice(["all", "all", "subset", "subset", "perm", "empty", "single", "pair", "dup_all"])
        if mode == "subset":
            k = rng.randint(1, max(1, n - 1))
            recipe["rows"] = sorted(rng.sample(range(n), k))
        elif mode == "perm":
            rows = list(range(n))
            rng.shuffle(rows)
            recipe["rows"] = rows
        elif mode == "empty":
            recipe["rows"] = []
        elif mode == "single":
            recipe["rows"] = [rng.randrange(n)]
        elif mode == "pair":
            recipe["rows"] = [rng.randrange(n), rng.randrange(n)]
            if recipe["rows"][0] == recipe["rows"][1]:
                recipe["rows"] = recipe["rows"][:1]
        recipe["index"] = rng.choice(["keep", "keep", "offset", "str", "shuffle_labels"])
    if rng.random() < 0.3:
        recipe["col_perm"] = rng.randrange(1 << 30)
    if allow_inject and not want_pure and rng.random() < (0.75 if prop == "C05" else 0.3):
        n_feat = len(world["features"])
        for _ in range(rng.choice([1, 1, 2, 3])):
            j = rng.randrange(n_feat)
            feat = world["features"][j]
            kind = rng.choice(UNSEEN_KINDS)
            if kind == "unseen_nan":
                # a missing value is a fault where none was seen at fit: prefer such a feature
                clean = [k for k, f in enumerate(world["features"]) if all(v is not None for v in f["values"])]
                if clean and rng.random() < 0.7:
                    j = rng.choice(clean)
                    feat = world["features"][j]
            payload = None
            if feat["kind"] == "quant":
                if kind in ("unseen_category", "equal_other_type", "borrowed_category"):
                    kind = "out_of_range"
                if kind == "out_of_range":
                    payload = rng.choice(["below", "above", "between", "zero", "neg_zero", "inf", "neg_inf"])
                elif kind == "extreme_magnitude":
                    payload = rng.choice([1e300, -1e300, 1e-300, 1.7e308, -5e-324])
            else:
                if kind in ("out_of_range", "extreme_magnitude"):
                    kind = "unseen_category"
                if kind == "unseen_category":
                    payload = rng.choice(["zz_novel", "ZZ", "novel 2", "", " ", "nan", "None", -77, 123456.5])
            recipe["inject"].append([rng.randrange(1 << 20), j, kind, payload])
    return recipe


def _gen_edit(rng, world):
    return {
        "op": "edit",
        "f": rng.randrange(1 << 16),
        "mode": rng.choice(["group", "group", "group", "nan", "replace"]),
        "a": rng.randrange(1 << 16),
        "b": rng.randrange(1 << 16),
        "dir": rng.randrange(2),
    }


C19_FAULTS = ("T1", "T2", "T3", "X1", "Y1", "X2", "X2dev", "K1", "X3", "X4", "K2", "R1")


def c19_meaningful(cls, fault, world):
    from .c19 import meaningful  # pylint: disable=C0415

    return meaningful(cls, fault, world, None, None)


def generate(prop, seed, idx, tier="quick") -> dict:
    rng = stream(seed, "session", prop, idx, "world")
    ops_rng = stream(seed, "session", prop, idx, "ops")
    force = None
    if prop == "C19":
        # exhaustive product {fault} x {class} x {fresh, fitted}, worlds and positions seeded
        # BaseDiscretizer.fit takes X and y only for signature compatibility: nothing to refuse there
        classes = [c for c, _ in worlds.SUT_WEIGHTS if c != "BaseDiscretizer"]
        combo = idx % (len(C19_FAULTS) * len(classes) * 2)
        fault = C19_FAULTS[combo % len(C19_FAULTS)]
        force = classes[(combo // len(C19_FAULTS)) % len(classes)]
        phase = ["fresh", "fitted"][combo // (len(C19_FAULTS) * len(classes))]
    want_dev = None
    world = None
    for attempt in range(40):
        world = worlds.generate_world(stream(seed, "session", prop, idx, "world", attempt), tier, force_class=force, want_dev=want_dev)
        if prop != "C19" or c19_meaningful(force, fault, world):
            break
        if fault == "X2dev":
            want_dev = True
    _ = rng
    if world["sut"]["class"] in worlds.CARVERS and prop in ("C17",):
        pass
    ops = []
    if prop == "C19":
        ops.append(
            {
                "op": "bad_call",
                "fault": fault,
                "phase": phase,
                "variant": ops_rng.randrange(1 << 16),
                "pos": ops_rng.randrange(1 << 20),
                "f": ops_rng.randrange(1 << 16),
                "also_refit": ops_rng.random() < 0.5,
                "target": ops_rng.choice(["fit", "fit", "transform"]),
                "meaningful": c19_meaningful(world["sut"]["class"], fault, world),
            }
        )
        # a few more malformed calls on the same (then fitted) object, with restarts in between
        for _ in range(ops_rng.randint(0, 3)):
            if ops_rng.random() < 0.3:
                ops.append({"op": "restart", "chain": 1})
            other = ops_rng.choice(C19_FAULTS)
            ops.append(
                {
                    "op": "bad_call",
                    "fault": other,
                    "phase": "fitted",
                    "variant": ops_rng.randrange(1 << 16),
                    "pos": ops_rng.randrange(1 << 20),
                    "f": ops_rng.randrange(1 << 16),
                    "also_refit": True,
                    "target": ops_rng.choice(["fit", "fit", "transform"]),
                    "meaningful": c19_meaningful(world["sut"]["class"], other, world),
                }
            )
    else:
        n_ops = ops_rng.randint(3, 14 if tier == "quick" else 24)
        # per-run subsets of enabled operation kinds (swarm)
        weights = {
            "transform": 6,
            "observe": 2,
            "edit": {"C17": 8, "C06": 3, "C04": 3, "C05": 2}.get(prop, 0),
            "save": {"C06": 2}.get(prop, 0),
            "restart": {"C06": 6, "C17": 3, "C04": 3, "C05": 2, "C07": 0}.get(prop, 1),
            "dup": 1,
        }
        for key in list(weights):
            if weights[key] and key != "transform" and ops_rng.random() < 0.15:
                weights[key] = 0
        if prop == "C06" and ops_rng.random() < 0.15:
            weights["restart"] = 30  # restart after (almost) every step
        pairs = [(k, w) for k, w in weights.items() if w > 0]
        prev = None
        for _ in range(n_ops):
            kind = worlds.weighted(ops_rng, pairs)
            # faults are placed inside work: a restart is drawn right after an edit with raised probability
            if prev in ("edit", "observe") and weights["restart"] and ops_rng.random() < 0.35:
                kind = "restart"
            if kind == "transform":
                op = {"op": "transform", "frame": _gen_frame(ops_rng, world, prop, allow_inject=prop in ("C05", "C06", "C04"), want_pure=prop == "C07")}
            elif kind == "observe":
                op = {"op": "observe", "what": ops_rng.choice(["summary", "summary_f", "history", "to_json"]), "f": ops_rng.randrange(1 << 16)}
            elif kind == "edit":
                op = _gen_edit(ops_rng, world)
            elif kind == "save":
                op = {"op": "save"}
            elif kind == "restart":
                op = {"op": "restart", "chain": ops_rng.choice([1, 1, 1, 2, 3])}
            else:
                if not ops or ops[-1]["op"] not in ("transform", "observe"):
                    continue
                op = dict(ops[-1], dup=True)
            ops.append(op)
            prev = op["op"]
    for n, op in enumerate(ops):
        op["id"] = n
    return {
        "engine": "session",
        "property": prop,
        "seed": seed,
        "idx": idx,
        "tier": tier,
        "world": world,
        "ops": ops,
        "sched": {"mode": "prng"},
    }


# ======================================================================================
# execution


def _history_json(obj):
    from AutoCarver.discretizers.utils.serialization import json_serialize_history  # pylint: disable=C0415

    hist = getattr(obj, "_history", None)
    if hist is None:
        return None
    return json_serialize_history(hist)


def state_digest(obj):
    """Digest of the fitted state (data attributes only)."""
    state = {
        "features": sorted(str(f) for f in obj.features),
        "quantitative": sorted(str(f) for f in obj.quantitative_features),
        "qualitative": sorted(str(f) for f in obj.qualitative_features),
        "values_orders": {str(f): canon_grouped_list(o, loose=False) for f, o in obj.values_orders.items()},
        "labels_per_values": canon({str(f): lab for f, lab in obj.labels_per_values.items()}),
        "features_dropna": canon(dict(obj.features_dropna)),
        "input_dtypes": canon(dict(obj.input_dtypes)),
        "features_casting": canon(dict(obj.features_casting)),
        "output_dtype": obj.output_dtype,
        "dropna": obj.dropna,
        "is_fitted": obj.is_fitted,
        "history": canon(_history_json(obj)),
    }
    return digest(state)


_PLAIN = (type(None), bool, int, float, str, dict, list, tuple)


def _plain(value, depth=0):
    """True for nested None/bool/number/str/dict/list/tuple values (what a cache or a flag would be)."""
    if depth > 6 or not isinstance(value, _PLAIN):
        return False
    if isinstance(value, dict):
        return all(_plain(k, depth + 1) and _plain(v, depth + 1) for k, v in value.items())
    if isinstance(value, (list, tuple)):
        return all(_plain(v, depth + 1) for v in value)
    return True


def attribute_digest(obj):
    """Digest of EVERY instance attribute (C07: a transform that writes any attribute alters the fitted
    state, e.g. a cache filled at the first transform): names of all attributes, plus the value of
    every attribute made of plain data only; other values (nested estimators, frames) by type name."""
    state = {}
    for name, value in sorted(vars(obj).items()):
        if type(value) in (dict, list, tuple, type(None), bool, int, float, str) and _plain(value):
            try:
                state[name] = canon(value)
            except Exception:  # pylint: disable=W0718
                state[name] = "type:" + type(value).__name__
        else:
            state[name] = "type:" + type(value).__name__
    return digest(state)


def parsed_json(text):
    """A saved JSON string as a JSON value, the nested values_orders string parsed too."""
    doc = json.loads(text)
    if isinstance(doc.get("values_orders"), str):
        doc["values_orders"] = json.loads(doc["values_orders"])
    return doc


def json_diff(a, b, path=""):
    """First difference between two JSON values (dict order ignored, list order respected)."""
    if type(a) is not type(b) and not (isinstance(a, (int, float)) and isinstance(b, (int, float)) and not isinstance(a, bool) and not isinstance(b, bool)):
        return f"{path}: {type(a).__name__} {a!r} vs {type(b).__name__} {b!r}"
    if isinstance(a, dict):
        for key in sorted(set(a) | set(b)):
            if key not in a:
                return f"{path}/{key}: absent vs {str(b[key])[:80]!r}"
            if key not in b:
                return f"{path}/{key}: {str(a[key])[:80]!r} vs absent"
            sub = json_diff(a[key], b[key], f"{path}/{key}")
            if sub:
                return sub
        return None
    if isinstance(a, list):
        if len(a) != len(b):
            return f"{path}: lists of length {len(a)} vs {len(b)}: {str(a)[:80]} vs {str(b)[:80]}"
        for i, (x, y) in enumerate(zip(a, b)):
            sub = json_diff(x, y, f"{path}[{i}]")
            if sub:
                return sub
        return None
    if isinstance(a, float) and isinstance(b, float) and math.isnan(a) and math.isnan(b):
        return None
    if a != b:
        return f"{path}: {a!r} vs {b!r}"
    if isinstance(a, (int, float)) and not isinstance(a, bool) and type(a) is not type(b):
        return f"{path}: {type(a).__name__} {a!r} vs {type(b).__name__} {b!r}"
    return None


def first_path(diff_text):
    """The JSON path part of a json_diff message, with feature names and indices abstracted."""
    path = diff_text.split(":")[0]
    parts = [p for p in path.split("/") if p]
    return parts[0].split("[")[0] if parts else ""


class Session:
    """One simulated run."""

    def __init__(self, spec):
        import_autocarver()
        seams.install()
        self.spec = spec
        self.prop = spec["property"]
        self.world = spec["world"]
        self.seed, self.idx = spec.get("seed"), spec.get("idx")
        self.stats = Stats()
        self.log = EventLog(self.seed, ["session", self.prop, self.idx])
        mode = spec.get("sched", {}).get("mode", "prng")
        self.sched = seams.Scheduler(
            mode=mode,
            rng=stream(self.seed, "session", self.prop, self.idx, "sched", "init"),
            decisions=spec.get("sched", {}).get("decisions"),
            stats=self.stats,
        )
        self.carver = worlds.is_carver(self.world)
        self.disk: dict[str, str] = {}
        self.generation = 0
        self.edited = False
        self.live = None  # restarted at arbitrary points
        self.shadow = None  # never restarted
        self.model = None
        self.first_results: dict[str, dict] = {}  # per base: index label -> row labels of the first full transform
        self.history_records: list = []
        self.executed: list = []
        self.nontrivial_flags: set[str] = set()
        self.world_rejected: dict[str, int] = {}
        self.X = self.y = self.Xd = self.yd = None
        self.probe = None
        self.n_transform_frames: set[str] = set()

    # ---------------------------------------------------------------- helpers
    def fork_sched(self, op_id):
        self.sched.fork(stream(self.seed, "session", self.prop, self.idx, "sched", op_id))

    def listing_perm(self):
        def perm(items):
            order = self.sched.permutation("listing", len(items))
            if order != sorted(order):
                self.stats.fault("perm_listing")
            return [items[i] for i in order]

        return perm

    def frames(self):
        self.X, self.y = worlds.build_frame(self.world, "train")
        if self.world.get("dev"):
            self.Xd, self.yd = worlds.build_frame(self.world, "dev")
        # caller-side permutation of the DataFrame columns
        order = self.sched.permutation("columns", len(self.X.columns))
        if order != sorted(order):
            self.stats.fault("perm_columns")
        cols = [self.X.columns[i] for i in order]
        self.X = self.X[cols]
        if self.Xd is not None:
            self.Xd = self.Xd[cols]

    def build(self, overrides=None):
        return worlds.build_sut(self.world, listing_perm=self.listing_perm(), overrides=overrides)

    def fit_args(self):
        kwargs = {}
        if self.carver and self.world.get("dev") and self.world["dev"].get("use_in_fit"):
            kwargs = {"X_dev": self.Xd.copy(deep=True), "y_dev": self.yd.copy(deep=True)}
        return self.X.copy(deep=True), self.y.copy(deep=True), kwargs

    def lib(self, func, *args, **kwargs):
        """Calls library code under the run's scheduler; classifies the outcome."""
        with seams.scheduling(self.sched), contextlib.redirect_stdout(_DEVNULL):
            try:
                return ("ok", func(*args, **kwargs))
            except AssertionError as err:
                return ("reject", err)
            except Exception as err:  # pylint: disable=W0718
                return ("error", err)

    # ---------------------------------------------------------------- persistence (SimDisk)
    def save(self, obj, name):
        outcome = self.lib(lambda: json.dumps(obj.to_json()))
        if outcome[0] != "ok":
            raise _Fail(
                "C06",
                "json_serialisable",
                f"json.dumps(to_json()) raised {type(outcome[1]).__name__}: {outcome[1]}",
                {"exception": type(outcome[1]).__name__},
            )
        self.disk[name] = outcome[1]
        return outcome[1]

    def load(self, text):
        from AutoCarver import load_carver  # pylint: disable=C0415
        from AutoCarver.discretizers import load_discretizer  # pylint: disable=C0415

        loader = load_carver if self.carver else load_discretizer
        # every load gets its own json.loads result (the loaders consume the dict they are given)
        outcome = self.lib(lambda: loader(json.loads(text)))
        if outcome[0] != "ok":
            leaders_clash = self._str_clash()
            raise _Fail(
                "C06",
                "load",
                f"loading the saved JSON raised {type(outcome[1]).__name__}: {str(outcome[1])[:200]}",
                {"exception": type(outcome[1]).__name__, "str_clash": leaders_clash},
            )
        return outcome[1]

    def _str_clash(self):
        """Whether some feature's known values contain a non-string v together with str(v)."""
        obj = self.shadow if self.shadow is not None else self.live
        if obj is None:
            return False
        for order in obj.values_orders.values():
            keys = list(order.content.keys())
            texts = [str(py(k)) for k in keys]
            if len(set(texts)) != len(texts):
                return True
        return False

    def restart(self, chain=1):
        """save; drop the live object; rebuild it with the real loader from the stored string."""
        for _ in range(chain):
            self.generation += 1
            text = self.save(self.live, f"gen{self.generation}")
            before = parsed_json(text)
            reloaded = self.load(text)
            if self.prop == "C06":
                again = parsed_json(self.save(reloaded, f"gen{self.generation}-again"))
                diff = json_diff(before, again)
                if diff:
                    raise _Fail(
                        "C06",
                        "same_json_again",
                        f"generation {self.generation}: re-serialised JSON differs at {diff}",
                        {"where": first_path(diff), "generation": min(self.generation, 2)},
                    )
            self.live = reloaded
            self.stats.fault("restart")
            if self.generation >= 2:
                self.stats.fault("restart_chain")
            if self.generation >= 3:
                self.stats.probe("restart_generation_ge3")
            if self.edited:
                self.stats.probe("restart_of_edited_object")
        self.nontrivial_flags.add("restart")

    # ---------------------------------------------------------------- frames
    def build_probe(self):
        """A frame holding every known value of every fitted raw column (from the model)."""
        import numpy as np  # pylint: disable=C0415
        import pandas as pd  # pylint: disable=C0415

        model = self.model
        columns = {}
        for feat in self.world["features"]:
            raw = feat["name"]
            casted = [f for f in model.features if model.raw_of(f) == raw]
            values: list = []
            if feat["kind"] == "quant":
                finite = sorted(
                    {
                        float(lead)
                        for f in casted
                        for lead in model.leaders(f)
                        if not isinstance(lead, str) and math.isfinite(lead)
                    }
                )
                for bound in finite:
                    values += [bound, float(np.nextafter(bound, -np.inf)), float(np.nextafter(bound, np.inf))]
                values += [(a + b) / 2 for a, b in zip(finite, finite[1:])]
                if finite:
                    values += [finite[0] - 1.0, finite[-1] + 1.0]
                observed = [v for v in feat["values"] if v is not None]
                values += observed[:5]
                if casted and all(model.nan_group(f) is not None for f in casted):
                    values.append(None)
                if not values:
                    values = observed[:3] or [0.0]
            else:
                seen: set[str] = set()
                accept_nan = bool(casted) and all(model.nan_group(f) is not None for f in casted)
                for f in casted:
                    for val in model.all_values(f):
                        if isinstance(val, str) and val == model.str_nan:
                            continue
                        if vkey(val) not in seen:
                            seen.add(vkey(val))
                            values.append(val)
                # only values every casted copy of the column knows
                values = [v for v in values if all(model.predict(f, v) is not None and not (isinstance(model.predict(f, v), tuple) and model.predict(f, v)[0] == REJECT) for f in casted)]
                if accept_nan:
                    values.append(None)
                if not values:
                    values = [v for v in feat["values"] if v is not None][:3]
            columns[raw] = values
        n_rows = max([len(v) for v in columns.values()] + [1])
        data = {}
        for feat in self.world["features"]:
            vals = columns[feat["name"]]
            col = [vals[i % len(vals)] if vals else None for i in range(n_rows)]
            if feat["kind"] == "quant":
                data[feat["name"]] = pd.Series([np.nan if v is None else v for v in col], dtype="float64").values
            else:
                data[feat["name"]] = pd.Series([np.nan if v is None else v for v in col], dtype="object").values
        frame = pd.DataFrame(data, index=pd.RangeIndex(n_rows))
        return frame[[c for c in self.X.columns]]

    def resolve_frame(self, recipe):
        """Builds the literal frame of a recipe.  Returns (frame, meta)."""
        import numpy as np  # pylint: disable=C0415
        import pandas as pd  # pylint: disable=C0415

        base = recipe["base"]
        if base == "dev" and self.Xd is None:
            base = "train"
        if base == "probe":
            if self.probe is None:
                self.probe = self.build_probe()
            frame = self.probe.copy(deep=True)
        else:
            frame = (self.X if base == "train" else self.Xd).copy(deep=True)
        positions = None
        if recipe.get("rows") is not None and base != "probe":
            positions = [p % len(frame) for p in recipe["rows"]] if len(frame) else []
            # positions must stay unique: the index must stay unique
            seen, uniq = set(), []
            for p in positions:
                if p not in seen:
                    seen.add(p)
                    uniq.append(p)
            positions = uniq
            frame = frame.iloc[positions].copy(deep=True)
        base_labels = list(frame.index)
        kind = recipe.get("index", "keep")
        if kind == "offset":
            frame.index = pd.Index([i + 500000 for i in range(len(frame))])
        elif kind == "str":
            frame.index = pd.Index([f"k{i}" for i in range(len(frame))], dtype="object")
        elif kind == "shuffle_labels":
            labels = list(frame.index)
            order = stream(recipe.get("col_perm", 1), "labels").sample(range(len(labels)), len(labels))
            frame.index = pd.Index([labels[i] for i in order])
        injected = []
        for pos, j, ikind, payload in recipe.get("inject", []):
            if len(frame) == 0:
                break
            feat = self.world["features"][j % len(self.world["features"])]
            row = pos % len(frame)
            col = feat["name"]
            value = None
            if feat["kind"] == "quant":
                observed = [v for v in feat["values"] if v is not None] or [0.0]
                lo, hi = min(observed), max(observed)
                if ikind == "unseen_nan":
                    value = np.nan
                elif ikind == "out_of_range":
                    value = {
                        "below": lo - abs(lo) - 1.0,
                        "above": hi + abs(hi) + 1.0,
                        "between": (lo + hi) / 2 + 1e-7,
                        "zero": 0.0,
                        "neg_zero": -0.0,
                        "inf": float("inf"),
                        "neg_inf": float("-inf"),
                    }[payload]
                else:
                    value = float(payload)
                frame[col] = frame[col].astype("float64")
                frame.iloc[row, frame.columns.get_loc(col)] = value
            else:
                if ikind == "unseen_nan":
                    value = np.nan
                elif ikind == "equal_other_type":
                    current = frame.iloc[row, frame.columns.get_loc(col)]
                    value = current
                    if isinstance(current, (int, np.integer)) and not isinstance(current, bool):
                        value = float(current)
                    elif isinstance(current, (float, np.floating)) and not is_nan(current) and float(current).is_integer():
                        value = int(current)
                    elif isinstance(current, str) and current.lstrip("-").isdigit():
                        value = int(current)
                elif ikind == "borrowed_category":
                    own = {repr(v) for v in feat["values"] if v is not None}
                    # bools are kept apart from numbers: True == 1 and False == 0 in Python, so a bool
                    # "borrowed" into a 0/1-coded feature is neither clearly seen nor clearly unseen
                    own_values = [v for v in feat["values"] if v is not None]
                    own_bool = any(isinstance(v, bool) for v in own_values)
                    donors = [
                        v
                        for other in self.world["features"]
                        if other["kind"] != "quant" and other["name"] != feat["name"]
                        for v in other["values"]
                        if v is not None
                        and repr(v) not in own
                        and not any(v == o for o in own_values)
                        and (isinstance(v, str) or (isinstance(v, bool) == own_bool and not own_bool))
                    ]
                    uniq = sorted({repr(v): v for v in donors}.items())
                    value = uniq[pos % len(uniq)][1] if uniq else "zz_novel"
                else:
                    value = payload
                frame[col] = frame[col].astype("object")
                frame.iat[row, frame.columns.get_loc(col)] = value
            injected.append([row, col, ikind])
            self.stats.fault(ikind)
        if recipe.get("col_perm") is not None:
            cols = list(frame.columns)
            order = stream(recipe["col_perm"], "cols").sample(range(len(cols)), len(cols))
            frame = frame[[cols[i] for i in order]]
        if recipe.get("extra_cols"):
            frame["extra_num"] = np.arange(len(frame), dtype="int64") * 3
            frame["extra_txt"] = pd.Series([f"t{i % 5}" for i in range(len(frame))], index=frame.index, dtype="object")
        if len(frame) == 0:
            self.stats.fault("empty_frame")
        elif len(frame) == 1:
            self.stats.fault("single_row")
        meta = {
            "base": base,
            "base_labels": base_labels,
            "pure": not injected,
            "injected": injected,
            "full": positions is None and base != "probe",
            "reindexed": kind != "keep",
            "key": digest([base, positions, kind, injected, recipe.get("extra_cols"), recipe.get("col_perm")]),
        }
        return frame, meta

    # ---------------------------------------------------------------- oracles on transform
    def call_transform(self, obj, frame):
        arg = frame.copy(deep=True)
        outcome = self.lib(obj.transform, arg)
        return outcome, arg

    def check_model(self, prop, frame, outcome, where):
        """transform == model.predict_frame (C04 on seen data, C05 on unseen data)."""
        model = self.model
        expected, offending = model.predict_frame(frame)
        kind, payload = outcome
        if kind == "error":
            raise _Fail(
                prop,
                "no_other_exception",
                f"{where}: transform raised {type(payload).__name__}: {str(payload)[:200]}",
                {"exception": type(payload).__name__},
            )
        if offending:
            if kind != "reject":
                raise _Fail(
                    prop,
                    "must_reject",
                    f"{where}: transform accepted a frame the fitted orders cannot label: {offending}",
                    {"reason": sorted(set(offending.values()))[0]},
                )
            message = str(payload)
            names = set(offending) | {model.raw_of(f) for f in offending}
            if not any(name in message for name in names):
                raise _Fail(
                    prop,
                    "rejection_names_feature",
                    f"{where}: AssertionError does not name an offending feature {sorted(names)}: {message[:200]}",
                )
            self.stats.probe("rejection_predicted_and_observed")
            return
        if kind == "reject":
            raise _Fail(
                prop,
                "must_accept",
                f"{where}: transform rejected a frame whose every value the fitted orders can label: {str(payload)[:240]}",
            )
        out = payload
        for feat in model.features:
            if feat not in out.columns:
                raise _Fail(prop, "fitted_column_present", f"{where}: fitted column {feat} missing from the output")
            got = out[feat].tolist()
            exp = expected[feat]
            if len(got) != len(exp):
                raise _Fail(prop, "row_count", f"{where}: {feat}: {len(got)} rows out, {len(exp)} in")
            labels = model.label_set(feat)
            raw_vals = frame[model.raw_of(feat)].tolist()
            for i, (g, e) in enumerate(zip(got, exp)):
                if isinstance(e, tuple) and e and e[0] == "leak":
                    raise _Fail(
                        prop,
                        "no_group_for_value",
                        f"{where}: {feat}: value {raw_vals[i]!r} is in no interval of leaders {model.leaders(feat)!r}; output {g!r}",
                        {"kind": model.kind[feat]},
                    )
                if not label_equal(g, e):
                    sig = {"kind": model.kind[feat], "dtype": model.output_dtype}
                    if not any(label_equal(g, lab) for lab in labels):
                        raise _Fail(
                            prop,
                            "closed_label_set",
                            f"{where}: {feat}: input {raw_vals[i]!r} -> {g!r}, not a fitted label {labels!r} (expected {e!r})",
                            sig,
                        )
                    raise _Fail(
                        prop,
                        "transform_equals_model",
                        f"{where}: {feat}: input {raw_vals[i]!r} -> {g!r}, values_orders says {e!r} (leaders {model.leaders(feat)!r})",
                        sig,
                    )
            clash = model.check_injective(feat)
            if clash is not None:
                raise _Fail(
                    prop,
                    "distinct_groups_distinct_labels",
                    f"{where}: {feat}: groups {clash[0]!r} and {clash[1]!r} share the label {clash[2]!r}",
                    {"kind": model.kind[feat], "dtype": model.output_dtype},
                )

    def check_unseen_nan_rejected(self, frame, meta, where):
        """C05, read on the training data rather than on the fitted state: a missing value in a kept
        feature that had none at fit must be refused (unless an edit gave missing values a group)."""
        cls = self.world["sut"]["class"]
        if cls == "BaseDiscretizer":
            return  # hand-built orders decide by themselves whether missing values are known
        for row, col, kind in meta.get("injected", []):
            if kind != "unseen_nan" or meta["base"] not in ("train", "dev"):
                continue
            if not is_nan(py(frame[col].iloc[row])):
                continue  # a later injection overwrote the cell
            feat = [f for f in self.world["features"] if f["name"] == col][0]
            if any(v is None for v in feat["values"]):
                continue
            if cls == "ChainedDiscretizer" and self.world["sut"]["params"].get("unknown_handling") == "drop":
                continue  # unknown values are merged with the missing values there
            if col in getattr(self, "nan_edited_raw", set()):
                continue
            kept = [f for f in self.model.features if self.model.raw_of(f) == col]
            if not kept:
                continue
            raise _Fail(
                "C05",
                "nan_unseen_at_fit_must_be_rejected",
                f"{where}: feature {col} had no missing value at fit, a frame with a missing value in it was accepted",
                {"kind": feat["kind"]},
            )

    def check_shape(self, prop, frame, arg, out, where):
        """C07 (d): index, columns, non-feature columns; (e) inputs untouched with copy=True."""
        model = self.model
        if list(out.index) != list(frame.index):
            raise _Fail(prop, "index_preserved", f"{where}: output index differs from input index")
        in_cols = [str(c) for c in frame.columns]
        out_cols = [str(c) for c in out.columns]
        if out_cols[: len(in_cols)] != in_cols:
            missing = [c for c in in_cols if c not in out_cols]
            raise _Fail(prop, "columns_preserved", f"{where}: input columns {in_cols} -> output {out_cols} (missing {missing})")
        extra = [c for c in out_cols[len(in_cols) :] if c not in model.features]
        if extra:
            raise _Fail(prop, "columns_preserved", f"{where}: unexpected new columns {extra}")
        absent = [c for c in model.features if c not in out_cols]
        if absent:
            raise _Fail(prop, "fitted_columns_present", f"{where}: fitted columns {absent} missing from the output ({len(out)} rows)")
        fitted = set(model.features)
        for col in in_cols:
            if col in fitted:
                continue
            if canon(out[col].tolist(), loose=False) != canon(frame[col].tolist(), loose=False):
                raise _Fail(prop, "non_feature_columns_unchanged", f"{where}: column {col} changed by transform")
        if self.world["sut"]["params"]["copy"]:
            if canon_frame(arg, loose=False) != canon_frame(frame, loose=False) or [str(t) for t in arg.dtypes] != [str(t) for t in frame.dtypes]:
                raise _Fail(prop, "input_not_modified", f"{where}: transform modified the caller's X although copy=True")

    # ---------------------------------------------------------------- run
    def fit(self):
        """Builds and fits the system under simulation; False if the world is rejected at fit."""
        self.fork_sched("fit")
        self.frames()
        obj = self.build()
        X, y, kwargs = self.fit_args()
        snap = None
        if self.world["sut"]["params"]["copy"]:
            snap = [canon_frame(X, loose=False), canon(y.tolist(), loose=False), [str(t) for t in X.dtypes]]
            if kwargs:
                snap += [canon_frame(kwargs["X_dev"], loose=False), canon(kwargs["y_dev"].tolist(), loose=False)]
        twin_out = None
        if self.prop == "C07":
            # a twin takes the fit_transform path
            twin = self.build()
            Xt, yt, kt = self.fit_args()
            twin_outcome = self.lib(twin.fit_transform, Xt, yt, **kt)
            twin_out = twin_outcome
        outcome = self.lib(obj.fit, X, y, **kwargs)
        self.log.add("live", "fit", digest(self.world["sut"]), outcome[0])
        if outcome[0] != "ok":
            name = type(outcome[1]).__name__
            self.world_rejected[name] = self.world_rejected.get(name, 0) + 1
            if twin_out is not None and twin_out[0] == "ok":
                raise _Fail("C07", "fit_transform_equals_fit_then_transform", f"fit raised {name} but fit_transform succeeded")
            return False
        if snap is not None:
            now = [canon_frame(X, loose=False), canon(y.tolist(), loose=False), [str(t) for t in X.dtypes]]
            if kwargs:
                now += [canon_frame(kwargs["X_dev"], loose=False), canon(kwargs["y_dev"].tolist(), loose=False)]
            if self.prop == "C07" and now != snap:
                which = ["X", "y", "X dtypes", "X_dev", "y_dev"][[a == b for a, b in zip(now, snap)].index(False)]
                raise _Fail("C07", "fit_input_not_modified", f"fit modified the caller's {which} although copy=True")
        self.live = obj
        if len(obj.features) == 0:
            self.stats.probe("all_features_dropped")
        try:
            self.model = DModel(obj, worlds.expected_sentinels(self.world))
        except ModelInvalid as err:
            raise _Fail("C04", "values_orders_well_formed", f"after fit: {err}") from err
        self._probe_model()
        if self.prop == "C07":
            self.check_fit_transform(twin_out)
        if not self.world["sut"]["params"]["copy"]:
            self.stats.probe("copy_false_session")
        if self.world["sut"]["params"]["n_jobs"] > 1:
            self.stats.probe("n_jobs_gt1_session")
        return True

    def _probe_model(self):
        model = self.model
        for feat in model.features:
            leaders = model.leaders(feat)
            if model.str_default and model.group_of(feat, model.str_default) is not None:
                self.stats.probe("default_group_present")
            nan_lead = model.nan_group(feat)
            if nan_lead is not None:
                if isinstance(nan_lead, str) and nan_lead == model.str_nan:
                    self.stats.probe("nan_kept_as_own_modality")
                else:
                    self.stats.probe("nan_merged_into_group")
            if any((not isinstance(lead, str)) and lead == 0 for lead in leaders):
                self.stats.probe("falsy_group_leader")
            if model.kind[feat] == "qual" and any(not isinstance(m, str) for m in model.all_values(feat)):
                self.stats.probe("numeric_looking_category")
            if len(leaders) >= 2:
                self.nontrivial_flags.add("two_groups")
        dropped = [f["name"] for f in self.world["features"] if not any(model.raw_of(c) == f["name"] for c in model.features)]
        if dropped:
            self.stats.probe("feature_dropped_at_fit")
        if any(len(c) > 1 for c in model.casting.values()):
            self.stats.probe("multiclass_casting")

    def check_fit_transform(self, twin_outcome):
        outcome, _ = self.call_transform(self.live, self.X)
        if twin_outcome[0] != outcome[0]:
            raise _Fail(
                "C07",
                "fit_transform_equals_fit_then_transform",
                f"fit_transform -> {twin_outcome[0]} ({str(twin_outcome[1])[:120]}), fit().transform() -> {outcome[0]} ({str(outcome[1])[:120]})",
            )
        if outcome[0] == "ok":
            a, b = canon_frame(twin_outcome[1]), canon_frame(outcome[1])
            if a != b:
                cols = [c for c in a["columns"] if a["values"].get(c) != b["values"].get(c)]
                raise _Fail("C07", "fit_transform_equals_fit_then_transform", f"outputs differ in columns {cols or 'layout'}")
            self.nontrivial_flags.add("twin")

    def record_first(self, base, frame, out):
        """Remembers the labels each row of a full base frame received first."""
        if base in self.first_results:
            return
        cols = [c for c in out.columns if c in set(self.model.features)]
        table = {}
        for pos, label in enumerate(frame.index):
            table[vkey(py(label))] = {c: canon(out[c].iloc[pos], loose=True) for c in cols}
        self.first_results[base] = {"rows": table, "state": digest(self.model.snapshot())}

    def op_transform(self, op, step):
        frame, meta = self.resolve_frame(op["frame"])
        where = f"step {step} transform({meta['base']}, {len(frame)} rows)"
        before = state_digest(self.live)
        before_attrs = attribute_digest(self.live) if self.prop == "C07" else None
        outcome, arg = self.call_transform(self.live, frame)
        self.log.add("live", "transform", meta["key"], outcome[0], digest(canon_frame(outcome[1])) if outcome[0] == "ok" else str(type(outcome[1]).__name__))
        self.n_transform_frames.add(meta["key"])
        prop = self.prop
        if prop in ("C04", "C05", "C17"):
            # C04 speaks about seen data, C05 about unseen data
            target = "C05" if (not meta["pure"] or meta["base"] == "probe") and prop == "C05" else prop
            if prop == "C04" and not meta["pure"]:
                target = None
            if prop == "C17":
                target = "C17" if meta["pure"] else None
            if target:
                self.check_model(target, frame, outcome, where)
            if not meta["pure"]:
                self.nontrivial_flags.add("unseen")
            if prop == "C05" and outcome[0] == "ok":
                self.check_unseen_nan_rejected(frame, meta, where)
        if prop == "C07":
            if state_digest(self.live) != before:
                raise _Fail("C07", "transform_leaves_state", f"{where}: fitted state changed by transform")
            if attribute_digest(self.live) != before_attrs:
                raise _Fail("C07", "transform_leaves_state", f"{where}: an instance attribute was written by transform")
            if outcome[0] == "ok":
                self.check_shape("C07", frame, arg, outcome[1], where)
                self.purity(frame, meta, outcome[1], where)
            elif outcome[0] == "error":
                raise _Fail("C07", "transform_raised", f"{where}: {type(outcome[1]).__name__}: {str(outcome[1])[:200]}", {"exception": type(outcome[1]).__name__})
        if prop == "C06" and self.shadow is not None:
            s_outcome, _ = self.call_transform(self.shadow, frame)
            self.compare_outcomes("C06", outcome, s_outcome, where)
            if not meta["pure"]:
                self.nontrivial_flags.add("unseen")
        return outcome

    def purity(self, frame, meta, out, where):
        """C07 (b): each row's labels equal the labels that row received in the first full transform."""
        if not meta["pure"] or meta["base"] == "probe":
            return
        base = meta["base"]
        if base not in self.first_results:
            full = self.X if base == "train" else self.Xd
            outcome, _ = self.call_transform(self.live, full)
            if outcome[0] != "ok":
                return
            self.record_first(base, full, outcome[1])
        table = self.first_results[base]["rows"]
        cols = [c for c in out.columns if c in set(self.model.features)]
        for pos, base_label in enumerate(meta["base_labels"]):
            ref = table.get(vkey(py(base_label)))
            if ref is None:
                continue
            for c in cols:
                got = canon(out[c].iloc[pos], loose=True)
                if got != ref.get(c):
                    raise _Fail(
                        "C07",
                        "row_wise_purity",
                        f"{where}: row {base_label!r} column {c}: {got} but {ref.get(c)} in the full transform",
                    )
        if not meta["full"] or meta["reindexed"]:
            self.nontrivial_flags.add("subset_or_perm")

    def compare_outcomes(self, prop, live, shadow, where):
        if live[0] != shadow[0]:
            raise _Fail(
                prop,
                "same_outcome_after_reload",
                f"{where}: reloaded object -> {live[0]} ({str(live[1])[:100] if live[0] != 'ok' else ''}), original -> {shadow[0]} ({str(shadow[1])[:100] if shadow[0] != 'ok' else ''})",
                {"live": live[0], "shadow": shadow[0]},
            )
        if live[0] == "ok":
            a, b = canon_frame(live[1]), canon_frame(shadow[1])
            if a != b:
                cols = [c for c in a["columns"] if a["values"].get(c) != b["values"].get(c)]
                detail = ""
                if cols:
                    col = cols[0]
                    pos = [i for i, (x, y) in enumerate(zip(a["values"][col], b["values"][col])) if x != y][0]
                    detail = f" first at {col}[{pos}]: {a['values'][col][pos]} vs {b['values'][col][pos]}"
                raise _Fail(prop, "same_output_after_reload", f"{where}: outputs differ in columns {cols or 'layout'}{detail}")
        else:
            if type(live[1]).__name__ != type(shadow[1]).__name__:
                raise _Fail(prop, "same_rejection_after_reload", f"{where}: {type(live[1]).__name__} vs {type(shadow[1]).__name__}")
            named_l = [f["name"] for f in self.world["features"] if f["name"] in str(live[1])]
            named_s = [f["name"] for f in self.world["features"] if f["name"] in str(shadow[1])]
            if live[0] == "reject" and named_l != named_s:
                raise _Fail(prop, "same_rejection_after_reload", f"{where}: names {named_l} vs {named_s}")

    def op_observe(self, op, step):
        feats = list(self.live.features)
        what = op["what"]
        arg = None
        if what == "summary_f":
            if not feats:
                what = "summary"
            else:
                arg = sorted(feats)[op["f"] % len(feats)]

        def call(obj):
            if what == "summary":
                return obj.summary()
            if what == "summary_f":
                return obj.summary(arg)
            if what == "history":
                return obj.history()
            return json.dumps(obj.to_json())

        before = state_digest(self.live)
        outcome = self.lib(call, self.live)
        self.stats.fault("observer_call")
        self.log.add("live", what, arg, outcome[0])
        _ = before, step  # observers are interleaved as noise; C07 says nothing about them
        if self.shadow is not None:
            # the never-restarted object receives exactly the same operations
            s_outcome = self.lib(call, self.shadow)
            if self.prop == "C06" and what in ("summary", "summary_f"):
                self.compare_summaries(outcome, s_outcome, f"step {step} {what}({arg})")
        return outcome

    def compare_summaries(self, live, shadow, where):
        if live[0] != shadow[0]:
            # summary of an object without features fails identically on both
            raise _Fail("C06", "same_summary_after_reload", f"{where}: {live[0]} vs {shadow[0]}: {str(live[1])[:120]} / {str(shadow[1])[:120]}")
        if live[0] != "ok":
            return
        a, b = live[1], shadow[1]
        ca = canon([list(map(str, a.index.tolist())), [str(c) for c in a.columns], a.reset_index(drop=True).to_dict(orient="list")])
        cb = canon([list(map(str, b.index.tolist())), [str(c) for c in b.columns], b.reset_index(drop=True).to_dict(orient="list")])
        if ca != cb:
            raise _Fail("C06", "same_summary_after_reload", f"{where}: summaries differ:\n{a}\n--- vs original ---\n{b}")

    # ---------------------------------------------------------------- edits (C17)
    def resolve_edit(self, op):
        """Resolves an abstract edit against the model's current state; None if no valid edit exists."""
        model = self.model
        feats = sorted(model.features)
        if not feats:
            return None
        feat = feats[op["f"] % len(feats)]
        leaders = model.leaders(feat)
        kindw = None
        for f in self.world["features"]:
            if f["name"] == model.raw_of(feat):
                kindw = f["kind"]
        nan = model.str_nan
        real = [lead for lead in leaders if not (isinstance(lead, str) and lead == nan)]
        mode = op["mode"]
        if mode == "nan":
            nan_lead = model.nan_group(feat)
            if not real:
                return None
            kept = real[op["b"] % len(real)]
            if nan_lead is not None and not (isinstance(nan_lead, str) and nan_lead == nan):
                # already merged: only the no-op (same group) is a valid call
                kept = nan_lead
            return {"feature": feat, "mode": "group", "discarded": float("nan"), "kept": kept, "kind": kindw, "what": "nan"}
        if mode == "replace" and model.kind[feat] == "qual" and op["a"] % 4 == 0:
            # renaming the group of the missing values (they form a group of their own)
            nan_lead = model.nan_group(feat)
            new_name = f"missing_{op.get('id', 0)}_{op['b'] % 7}"
            if (
                nan_lead is not None
                and isinstance(nan_lead, str)
                and nan_lead == nan
                and not any(model.group_of(f, new_name) is not None for f in model.features)
            ):
                return {"feature": feat, "mode": "replace", "discarded": float("nan"), "kept": new_name, "kind": kindw, "what": "replace_nan"}
        if mode == "replace" and model.kind[feat] == "quant":
            # on a quantitative feature the leader is the interval's upper bound: 'replace' moves
            # that bound (the old bound stays in the group as a member).  Generated so that the
            # leaders stay sorted: the new bound lies strictly between the neighbouring leaders.
            finite = [lead for lead in real if math.isfinite(lead)]
            if not finite:
                return None
            lead = finite[op["a"] % len(finite)]
            pos = [i for i, x in enumerate(real) if same(x, lead)][0]
            prev_lead = real[pos - 1] if pos > 0 else None
            next_lead = real[pos + 1] if pos + 1 < len(real) else None
            members = [m for m in model.members(feat, lead) if not isinstance(m, str)]
            if op["dir"]:
                hi = next_lead if next_lead is not None and math.isfinite(next_lead) else lead + max(1.0, abs(lead))
                lo = max(members)
                new_bound = (lo + hi) / 2
            else:
                below = [m for m in members if m < lead] + ([prev_lead] if prev_lead is not None else [])
                lo = max(below) if below else lead - max(1.0, abs(lead))
                new_bound = (lo + lead) / 2
            new_bound = float(new_bound)
            wfeat = [f for f in self.world["features"] if f["name"] == model.raw_of(feat)][0]
            if wfeat.get("dtype") == "float32":
                # a bound that float32 data cannot represent would be compared after a silent
                # rounding (numpy casts the scalar to the column's dtype): keep it representable
                import struct  # pylint: disable=C0415

                new_bound = struct.unpack("f", struct.pack("f", new_bound))[0]
            if not math.isfinite(new_bound) or model.group_of(feat, new_bound) is not None:
                return None
            if prev_lead is not None and not new_bound > prev_lead:
                return None
            if next_lead is not None and not new_bound < next_lead:
                return None
            if same(new_bound, lead):
                return None
            return {"feature": feat, "mode": "replace", "discarded": lead, "kept": new_bound, "kind": kindw, "what": "replace", "moves_bound": True}
        if mode == "replace":
            if model.kind[feat] != "qual" or not real:
                return None
            lead = real[op["a"] % len(real)]
            # a fresh name: known to no fitted feature (a name that another class-specific copy of
            # the column already knows would be in the probe frame and legitimately change group)
            new_name = f"renamed_{op.get('id', 0)}_{op['b'] % 7}"
            if any(model.group_of(f, new_name) is not None for f in model.features):
                return None
            return {"feature": feat, "mode": "replace", "discarded": lead, "kept": new_name, "kind": kindw, "what": "replace"}
        if len(real) < 2:
            return None
        if kindw == "cat":
            i = op["a"] % len(real)
            j = op["b"] % len(real)
            if i == j:
                j = (j + 1) % len(real)
        else:  # ordered features: adjacent leaders, either direction
            i = op["a"] % (len(real) - 1)
            j = i + 1
            if op["dir"]:
                i, j = j, i
        return {"feature": feat, "mode": "group", "discarded": real[i], "kept": real[j], "kind": kindw, "what": "group", "up": i < j}

    def op_edit(self, op, step):
        edit = self.resolve_edit(op)
        if edit is None:
            self.log.add("live", "edit", None, "skipped")
            return None
        feat = edit["feature"]
        where = f"step {step} update_discretizer({feat!r}, {edit['mode']!r}, {edit['discarded']!r}, {edit['kept']!r})"
        model = self.model
        # partition before the edit, on the training frame and the probe
        frames = {"train": self.X, "probe": self.resolve_frame({"base": "probe"})[0]}
        before = {}
        for name, frame in frames.items():
            outcome, _ = self.call_transform(self.live, frame)
            before[name] = outcome
        targets = [self.live] + ([self.shadow] if self.shadow is not None else [])
        outcomes = []
        for obj in targets:
            outcomes.append(self.lib(obj.update_discretizer, feat, edit["mode"], edit["discarded"], edit["kept"]))
        outcome = outcomes[0]
        self.log.add("live", "edit", digest(canon(edit)), outcome[0])
        self.stats.fault({"group": "edit_group", "nan": "edit_nan", "replace": "edit_replace", "replace_nan": "edit_replace_nan"}[edit["what"]])
        if edit.get("moves_bound"):
            self.stats.probe("edit_replace_moves_quantile_bound")
        quant_down = edit["kind"] == "quant" and edit["what"] == "group" and not edit.get("up", True)
        sig = {"mode": edit["mode"], "what": edit["what"], "kind": edit["kind"]}
        if quant_down:
            sig["direction"] = "upper_into_lower"
        if outcome[0] != "ok":
            raise _Fail(
                "C17",
                "valid_edit_accepted",
                f"{where} raised {type(outcome[1]).__name__}: {str(outcome[1])[:200]}",
                dict(sig, exception=type(outcome[1]).__name__),
            )
        if len(outcomes) > 1 and outcomes[1][0] != "ok":
            raise _Fail("C06", "same_outcome_after_reload", f"{where}: accepted by the reloaded object, {outcomes[1][0]} on the original")
        # the model applies the edit by its own rules
        nan_edit = edit["what"] in ("nan", "replace_nan")
        discarded = model.str_nan if nan_edit else edit["discarded"]
        already = model.group_of(feat, discarded)
        changed = True
        if already is not None and same(already, edit["kept"]) and (nan_edit or edit["mode"] == "group") and not same(discarded, edit["kept"]):
            changed = False  # "already grouped" warning, no-op
        elif edit["mode"] == "replace":
            model.edit_rename(feat, discarded, edit["kept"])
        else:
            model.edit_group(feat, discarded, edit["kept"])
        if nan_edit:
            # missing values grouped by hand receive their group's label from now on, also when
            # they already were in that group (the call then only warns)
            model.dropna[feat] = True
            if not hasattr(self, "nan_edited_raw"):
                self.nan_edited_raw = set()
            self.nan_edited_raw.add(model.raw_of(feat))
        # labels the object gives to quantitative 'str' groups are read back (only injectivity is demanded)
        model.given_labels = {
            f: {vkey(py(k)): py(v) for k, v in self.live.labels_per_values.get(f, {}).items()} for f in model.features
        }
        self.edited = True
        self.probe = None
        self.first_results = {}
        if self.prop != "C17":
            return outcome
        # O4: values_orders equals the model's state
        try:
            real_now = DModel(self.live, worlds.expected_sentinels(self.world))
        except ModelInvalid as err:
            raise _Fail("C17", "values_orders_after_edit", f"{where}: {err}", sig) from err
        if real_now.snapshot()[feat] != model.snapshot()[feat]:
            raise _Fail(
                "C17",
                "values_orders_after_edit",
                f"{where}: values_orders[{feat}] = {real_now.groups[feat]!r}, expected {model.groups[feat]!r}",
                sig,
            )
        for other in model.features:
            if other != feat and real_now.snapshot()[other] != model.snapshot()[other]:
                raise _Fail("C17", "other_features_untouched", f"{where}: values_orders[{other}] changed", sig)
        # O1: partition merge on train and probe
        for name, frame in frames.items():
            if before[name][0] != "ok":
                continue
            after, _ = self.call_transform(self.live, frame)
            if after[0] != "ok":
                if nan_edit and after[0] == "reject":
                    continue
                raise _Fail("C17", "transform_after_edit", f"{where}: transform({name}) -> {after[0]}: {str(after[1])[:200]}", dict(sig, exception=type(after[1]).__name__))
            if not edit.get("moves_bound"):
                self.check_partition(edit, feat, frame, before[name][1], after[1], where + f" on {name}", sig, changed)
            self.check_model("C17", frame, after, where + f" on {name}")
        if changed:
            self.nontrivial_flags.add("edit_changed_partition")
        # O2: labels and summary agree with transform
        self.check_summary(where, sig)
        # O3: the object rebuilt from its JSON transforms both frames identically
        text = self.save(self.live, "edit-check")
        rebuilt = self.load(text)
        for name, frame in frames.items():
            a, _ = self.call_transform(self.live, frame)
            b, _ = self.call_transform(rebuilt, frame)
            try:
                self.compare_outcomes("C17", b, a, where + f" json round trip on {name}")
            except _Fail as fail:
                fail.signature.update(sig)
                raise
        return outcome

    def check_partition(self, edit, feat, frame, out_before, out_after, where, sig, changed):
        """O1: previous partition with the blocks of the discarded and kept groups merged."""
        model = self.model
        raw = model.raw_of(feat)
        vals = frame[raw].tolist()
        # every other column is cell-identical
        for col in out_before.columns:
            if col == feat:
                continue
            if canon(out_before[col].tolist(), loose=True) != canon(out_after[col].tolist(), loose=True):
                raise _Fail("C17", "other_rows_unchanged", f"{where}: column {col} changed by an edit of {feat}", sig)
        b = [json.dumps(canon(v, loose=True)) for v in out_before[feat].tolist()]
        a = [json.dumps(canon(v, loose=True)) for v in out_after[feat].tolist()]
        # blocks of the new partition must be unions of blocks of the old one, and exactly the discarded
        # and kept blocks are merged
        old_to_new: dict[str, set] = {}
        for x, y in zip(b, a):
            old_to_new.setdefault(x, set()).add(y)
        split = {k: v for k, v in old_to_new.items() if len(v) > 1}
        if split:
            raise _Fail("C17", "partition_merge", f"{where}: rows that shared label {list(split)[0]} now have {sorted(list(split.values())[0])}", sig)
        new_to_old: dict[str, set] = {}
        for x, y in zip(b, a):
            new_to_old.setdefault(y, set()).add(x)
        merged = {k: v for k, v in new_to_old.items() if len(v) > 1}
        kept_lead = model.group_of(feat, edit["kept"])
        kept_label = json.dumps(canon(model.final_label(feat, kept_lead), loose=True))
        for new_label, olds in merged.items():
            if edit["mode"] == "replace" or not changed:
                raise _Fail("C17", "partition_merge", f"{where}: labels {sorted(olds)} merged into {new_label} by an edit that only renames", sig)
            if len(olds) > 2 or new_label != kept_label:
                # merged block must carry the kept group's label and be made of exactly two old blocks
                # (the float labels of later groups shift by one, which is a relabelling, not a merge)
                raise _Fail("C17", "partition_merge", f"{where}: old labels {sorted(olds)} merged into {new_label}; kept group's label is {kept_label}", sig)
        _ = vals

    def check_summary(self, where, sig):
        """O2: summary() and labels_per_values agree with transform (through the model)."""
        model = self.model
        outcome = self.lib(self.live.summary)
        if outcome[0] != "ok":
            if not model.features:
                return
            raise _Fail("C17", "summary_after_edit", f"{where}: summary() -> {type(outcome[1]).__name__}: {str(outcome[1])[:160]}", dict(sig, exception=type(outcome[1]).__name__))
        table = outcome[1].reset_index()
        for feat in model.features:
            rows = table[table["feature"] == feat]
            if model.kind[feat] == "qual":
                listed: list = []
                for _, row in rows.iterrows():
                    for val in row["content"]:
                        listed.append(val)
                        lead = model.group_of(feat, val)
                        if lead is None:
                            raise _Fail("C17", "summary_agrees_with_transform", f"{where}: summary lists unknown value {val!r} for {feat}", sig)
                        expected = model.label_of_group(feat, lead)
                        if not label_equal(row["label"], expected):
                            raise _Fail(
                                "C17",
                                "summary_agrees_with_transform",
                                f"{where}: summary says {feat}: {val!r} -> {row['label']!r}, transform gives {expected!r}",
                                sig,
                            )
                keys = [vkey(v) for v in listed]
                if len(set(keys)) != len(keys):
                    raise _Fail("C17", "summary_partitions_values", f"{where}: {feat}: a value appears in two rows of summary", sig)
                known = [
                    v
                    for v in model.all_values(feat)
                    if isinstance(v, str) and v != model.str_default and not (v == model.str_nan and not self.live.dropna)
                ]
                missing = [v for v in known if vkey(v) not in set(keys)]
                if missing:
                    raise _Fail("C17", "summary_partitions_values", f"{where}: {feat}: known values {missing!r} absent from summary", sig)
            else:
                labels = [row["label"] for _, row in rows.iterrows()]
                nan_own = [lead for lead in model.leaders(feat) if isinstance(lead, str) and lead == model.str_nan]
                core = [model.label_of_group(feat, lead) for lead in model.leaders(feat) if lead not in nan_own]
                allowed_extra = [model.label_of_group(feat, lead) for lead in nan_own]
                missing = [e for e in core if not any(label_equal(l, e) for l in labels)]
                extra = [l for l in labels if not any(label_equal(l, e) for e in core + allowed_extra)]
                if missing or extra or len(labels) > len(core) + len(allowed_extra):
                    raise _Fail("C17", "summary_one_row_per_group", f"{where}: {feat}: summary labels {labels!r}, groups' labels {core!r} (+ missing-value group {allowed_extra!r})", sig)
                nan_lead = model.nan_group(feat)
                if nan_lead is not None and not (isinstance(nan_lead, str) and nan_lead == model.str_nan):
                    want = model.label_of_group(feat, nan_lead)
                    hit = [row for _, row in rows.iterrows() if label_equal(row["label"], want)]
                    if not hit or model.str_nan not in list(hit[0]["content"]):
                        raise _Fail("C17", "summary_shows_nan_in_its_group", f"{where}: {feat}: missing values merged into {nan_lead!r} not shown there", sig)

    # ---------------------------------------------------------------- driver
    def after_state_change(self, step, what):
        """C04 as a workload invariant: at every step at which the fitted state is new."""
        if self.prop != "C04":
            return
        try:
            fresh = DModel(self.live, worlds.expected_sentinels(self.world))
        except ModelInvalid as err:
            raise _Fail("C04", "values_orders_well_formed", f"step {step} after {what}: {err}") from err
        if what == "restart" and fresh.snapshot() != self.model.snapshot():
            # reported under C04 only as far as transform is concerned: the model is re-extracted
            pass
        self.model = fresh
        self.probe = None
        for name in ("train", "probe"):
            frame = self.X if name == "train" else self.resolve_frame({"base": "probe"})[0]
            outcome, _ = self.call_transform(self.live, frame)
            self.check_model("C04", frame, outcome, f"step {step} after {what}: transform({name})")
        if any(len(self.model.leaders(f)) >= 2 for f in self.model.features):
            self.nontrivial_flags.add("compared_two_groups")

    def run(self):
        violation = None
        step = -1
        try:
            if self.prop == "C19":
                self.run_c19()
            else:
                if self.fit():
                    if self.prop in ("C06", "C17"):
                        self.shadow = self.live
                        # an independent twin of the fitted object (pickle, as the real pool does; not
                        # copy.deepcopy, which rebuilds list subclasses through their overridden append)
                        self.live = pickle.loads(pickle.dumps(self.shadow))
                    self.after_state_change(-1, "fit")
                    for step, op in enumerate(self.spec["ops"]):
                        self.fork_sched(op.get("id", step))
                        kind = op["op"]
                        if op.get("dup"):
                            self.stats.fault("dup_call")
                        if kind == "transform":
                            self.op_transform(op, step)
                        elif kind == "observe":
                            self.op_observe(op, step)
                        elif kind == "edit":
                            if self.op_edit(op, step) is not None:
                                self.after_state_change(step, "edit")
                        elif kind == "save":
                            text = self.save(self.live, f"manual{step}")
                            if self.shadow is not None:
                                other = self.save(self.shadow, f"manual{step}-shadow")
                                diff = json_diff(parsed_json(other), parsed_json(text))
                                if diff and self.prop == "C06":
                                    raise _Fail("C06", "same_json_again", f"step {step}: JSON of the reloaded object differs from the original's at {diff}", {"where": first_path(diff), "generation": min(self.generation, 2)})
                            self.log.add("live", "save", None, "ok", digest(parsed_json(text)))
                        elif kind == "restart":
                            self.restart(op.get("chain", 1))
                            self.log.add("live", "restart", None, "ok", state_digest(self.live))
                            self.after_state_change(step, "restart")
                        self.executed.append(op)
                    self.end_of_history()
        except _Fail as fail:
            violation = {
                "property": fail.prop,
                "oracle": fail.oracle,
                "step": getattr(self, "cur_step", step),
                "message": fail.message,
                "signature": dict(fail.signature, **{"class": self.world["sut"]["class"]}) if fail.prop == "C19" else fail.signature,
            }
            self.log.add("sim", "violation", None, fail.oracle)
        violations = [violation] if violation and violation["property"] == self.prop else []
        foreign = [violation] if violation and violation["property"] != self.prop else []
        nontrivial = self.is_nontrivial()
        return {
            "fingerprint": self.log.fingerprint(),
            "violations": violations,
            "foreign_violations": foreign,
            "stats": self.stats.as_dict(),
            "nontrivial": nontrivial,
            "distinct_key": digest([self.world, self.executed, self.sched.signature()]),
            "sched_key": self.sched.signature(),
            "sched_decisions": self.sched.decisions if len(self.sched.decisions) <= 20000 else None,
            "steps": len(self.executed),
            "skipped": 0,
            "sim_time": self.log.seq + len(self.sched.decisions),
            "world_rejected": self.world_rejected,
        }

    def is_nontrivial(self):
        flags = self.nontrivial_flags
        prop = self.prop
        if prop == "C06":
            return "restart" in flags and self.model is not None and bool(self.model.features)
        if prop == "C07":
            return len(self.n_transform_frames) >= 2 and "subset_or_perm" in flags
        if prop == "C17":
            return "edit_changed_partition" in flags
        if prop == "C19":
            return "fault_fired" in flags
        if prop == "C04":
            return "compared_two_groups" in flags
        if prop == "C05":
            return "unseen" in flags
        return False

    def end_of_history(self):
        """History check at the end of the session (C07): every base frame re-transformed at the end
        reproduces its first result."""
        if self.prop != "C07" or self.live is None:
            return
        for base, record in list(self.first_results.items()):
            full = self.X if base == "train" else self.Xd
            outcome, _ = self.call_transform(self.live, full)
            if outcome[0] != "ok":
                raise _Fail("C07", "repeatable_transform", f"end of history: transform({base}) -> {outcome[0]}")
            cols = [c for c in outcome[1].columns if c in set(self.model.features)]
            for pos, label in enumerate(full.index):
                ref = record["rows"].get(vkey(py(label)))
                for c in cols:
                    if canon(outcome[1][c].iloc[pos], loose=True) != ref.get(c):
                        raise _Fail("C07", "repeatable_transform", f"end of history: row {label!r} column {c} changed")

    # ---------------------------------------------------------------- C19
    def run_c19(self):
        from .c19 import run_c19  # pylint: disable=C0415

        run_c19(self)


def execute(spec):
    if spec.get("mode") == "xproc":
        return execute_xproc(spec)
    return Session(spec).run()


# ======================================================================================
# engine interface


class _Engine:
    name = "session"
    isolate_runs = True

    @staticmethod
    def generate(prop, seed, idx, tier):
        return generate(prop, seed, idx, tier)

    @staticmethod
    def execute(spec):
        return execute(spec)

    @staticmethod
    def sample_of(spec, res):
        _ = res
        world = spec["world"]
        return {
            "system": world["sut"],
            "rows": world["n"],
            "features": [{"name": f["name"], "kind": f["kind"], "first_values": f["values"][:6]} for f in world["features"]],
            "target": world["target"],
            "dev_sample": bool(world.get("dev")),
            "operations": spec["ops"],
            "schedule": "prng streams keyed by (seed, property, run, operation id)",
        }

    @staticmethod
    def reductions(spec):
        """Drop features, drop the dev sample, halve rows, simplify knobs."""
        world = spec["world"]
        feats = world["features"]
        if len(feats) > 1:
            for j in range(len(feats)):
                new = dict(world, features=feats[:j] + feats[j + 1 :])
                if world.get("dev"):
                    new["dev"] = dict(world["dev"], values={k: v for k, v in world["dev"]["values"].items() if k != feats[j]["name"]})
                yield dict(spec, world=new)
        if world.get("dev"):
            yield dict(spec, world=dict(world, dev=None))
        n = world["n"]
        if n > 12:
            for keep in (slice(0, n // 2), slice(n // 2, n), slice(0, n, 2)):
                idx = list(range(n))[keep]
                if len(idx) < 6:
                    continue
                new = dict(
                    world,
                    n=len(idx),
                    index=[world["index"][i] for i in idx],
                    y=[world["y"][i] for i in idx],
                    features=[dict(f, values=[f["values"][i] for i in idx]) for f in feats],
                )
                yield dict(spec, world=new)
        params = world["sut"]["params"]
        for key, simple in (("n_jobs", 1), ("copy", True), ("min_freq_mod", None)):
            if key in params and params[key] != simple:
                yield dict(spec, world=dict(world, sut=dict(world["sut"], params=dict(params, **{key: simple}))))
        if spec.get("sched", {}).get("mode") != "identity":
            yield dict(spec, sched={"mode": "identity"})
        for n_op, op in enumerate(spec["ops"]):
            if op["op"] == "transform":
                fr = op["frame"]
                for key, simple in (("inject", []), ("rows", None), ("index", "keep"), ("extra_cols", False), ("col_perm", None)):
                    if fr.get(key) != simple and not (key == "inject" and not fr.get("inject")):
                        new_op = dict(op, frame=dict(fr, **{key: simple}))
                        yield dict(spec, ops=spec["ops"][:n_op] + [new_op] + spec["ops"][n_op + 1 :])
                if len(fr.get("inject", [])) > 1:
                    for k in range(len(fr["inject"])):
                        new_op = dict(op, frame=dict(fr, inject=fr["inject"][:k] + fr["inject"][k + 1 :]))
                        yield dict(spec, ops=spec["ops"][:n_op] + [new_op] + spec["ops"][n_op + 1 :])

    @staticmethod
    def plan(prop, tier):
        quick = tier == "quick"
        runs = {
            "C04": (4800, 80000),
            "C05": (6000, 110000),
            "C06": (6000, 110000),
            "C07": (3600, 60000),
            "C17": (3600, 70000),
            "C19": (6336, 120000),
        }[prop]
        rules = {
            "C06": "sessions on a fitted object with restart faults (save, drop, reload through the real loader from a fresh json.loads) at seeded points between transforms on seen/unseen/empty/single-row frames, summaries, manual edits; a never-restarted shadow object receives the same operations and is the oracle; JSON of every generation compared as JSON values. distinct = digest of (world, executed operations, schedule signature); non-trivial = at least one restart of an object that kept at least one feature",
            "C07": "sessions interleaving transforms of the training/dev frame, row subsets (0, 1, 2, random), permutations, index relabelings, repeated calls, extra columns, under n_jobs 1-4 on SimPool; twin object through fit_transform; state digests before/after every call; deep input snapshots. non-trivial = at least 2 transforms on different frames, one of them a subset/permutation/relabeling",
            "C17": "edit histories through update_discretizer (group adjacent/any leaders, missing values into a group, rename), interleaved with transforms and restarts, checked after every edit against the DiscretizerModel: partition merge, values_orders, labels, summary, JSON round trip. non-trivial = at least one accepted edit that changed the partition",
            "C19": "every listed malformed-input class x every class it is meaningful for x {fresh, fitted} (that product is enumerated completely in every batch); world, position and schedule seeded. non-trivial = the fault fired and an outcome was observed",
            "C04": "transform == DiscretizerModel(values_orders) asserted at every step at which the fitted state is new (after fit, after every restart, after every accepted edit) on the training frame and the all-known-values probe, for all classes, on the pooled and unpooled transform path. non-trivial = at least one feature with at least 2 groups compared",
            "C05": "frames with injected unseen categories, missing values, out-of-range / extreme / infinite numbers, equal values of another type, empty and single-row frames, on fitted and reloaded objects; accept/reject and the closed label set predicted by the DiscretizerModel. non-trivial = at least one unseen value injected",
        }
        return {
            "n_runs": runs[0] if quick else runs[1],
            "chunk": 6,
            "wall_budget_s": 110 if quick else 1500,
            "level": "fault_enumeration" if prop == "C19" else "exploration",
            "selfcheck_runs": 6,
            "shrink_budget_s": 120,
            "rule": rules[prop],
            "assumptions": [
                "sampled worlds, schedules and histories; a clean batch is evidence, not proof",
                "worlds come from acsim.worlds (12-400 rows, 1-6 features, swarm-varied kinds and knobs)",
                "DiscretizerModel reads only data attributes of the fitted object; quantitative 'str' labels are taken from the object and only required to be injective over groups",
                "worlds whose fit raises are counted (world_rejected) and not reported here (C08 is not claimed)",
            ],
        }

    @staticmethod
    def components():
        return seams.report()

    @staticmethod
    def extra_coverage(prop, seed, tier, total):
        if prop == "C19":
            counts = total["stats"].get("counts", {})
            fired = sorted(k[len("triple:"):] for k in counts if k.startswith("triple:"))
            classes = [c for c, _ in worlds.SUT_WEIGHTS if c != "BaseDiscretizer"]
            product = [f"{c}:{f}:{ph}" for c in classes for f in C19_FAULTS for ph in ("fresh", "fitted")]
            never = [t for t in product if t not in set(fired)]
            return {
                "enumerated_product": {
                    "fault_classes": list(C19_FAULTS),
                    "system_classes": classes,
                    "phases": ["fresh", "fitted"],
                    "size": len(product),
                    "every_triple_scheduled_in_every_batch_of": len(product),
                    "triples_fired": len(fired),
                    "triples_never_fired_because_not_meaningful": never,
                    "note": "the product is enumerated completely (run index modulo its size selects the triple); a triple does not fire where the fault has no meaning for the class (DESIGN.md §4.6), and K1/K2/R1 are phase-independent (a malformed constructor makes a new object; a refit needs a fitted one) so they fire under one phase label only",
                }
            }
        if prop != "C06":
            return {}
        if tier != "thorough":
            return cross_process_restarts(seed, tier, n_worlds=12, hashseeds=(99991,))
        return cross_process_restarts(seed, tier, n_worlds=48, hashseeds=(3, 99991))


def execute_xproc(spec):
    """mode 'xproc': fit here (identity schedule, n_jobs=1), save the JSON string, load and transform it
    in a fresh interpreter under another real PYTHONHASHSEED (fault kind restart_cross_process)."""
    import os  # pylint: disable=C0415
    import shutil  # pylint: disable=C0415
    import subprocess  # pylint: disable=C0415
    import sys  # pylint: disable=C0415
    import tempfile  # pylint: disable=C0415

    from .realcheck import reference_digest  # pylint: disable=C0415

    import_autocarver()
    seams.install()
    here = os.path.dirname(os.path.dirname(os.path.abspath(__file__)))
    log = EventLog(spec.get("seed"), ["session-xproc", spec.get("idx")])
    world = spec["world"]
    with seams.scheduling(seams.Scheduler(mode="identity")), contextlib.redirect_stdout(_DEVNULL):
        ref = reference_digest(world, 1, install_seams=True)
    result = {
        "violations": [],
        "stats": {"faults": {}},
        "nontrivial": False,
        "distinct_key": digest([world, spec.get("hashseeds")]),
        "steps": 0,
        "skipped": 0,
        "world_rejected": {},
    }
    if not isinstance(ref, tuple):
        log.add("live", "fit", None, "rejected")
        result.update(fingerprint=log.fingerprint(), sim_time=log.seq, world_rejected={"fit": 1})
        return result
    _, text = ref
    try:
        expected = _load_digest_in_process(world, text)
    except Exception as err:  # pylint: disable=W0718
        # the saved JSON does not even load here: a C06 violation of its own
        log.add("live", "load", None, "error", type(err).__name__)
        result["violations"] = [
            {
                "property": "C06",
                "oracle": "load",
                "step": -1,
                "message": f"loading the saved JSON raised {type(err).__name__}: {str(err)[:200]}",
                "signature": {"oracle": "load", "exception": type(err).__name__, "str_clash": False},
            }
        ]
        result.update(fingerprint=log.fingerprint(), sim_time=log.seq, nontrivial=True)
        return result
    log.add("live", "save", None, "ok", digest(parsed_json(text)))
    scratch = tempfile.mkdtemp(prefix="acsim_xproc_")
    problems = []
    try:
        path = os.path.join(scratch, "spec.json")
        with open(path, "w", encoding="utf-8") as fobj:
            json.dump({"world": world, "saved_json": text}, fobj)
        for hs in spec["hashseeds"]:
            env = dict(os.environ, PYTHONHASHSEED=str(hs), VERIF_NO_REEXEC="1")
            proc = subprocess.run(
                [sys.executable, "-m", "acsim.realcheck", path, "load"],
                capture_output=True, text=True, env=env, cwd=here, timeout=600, check=False,
            )
            got = None
            for line in reversed(proc.stdout.splitlines()):
                if line.startswith("{"):
                    got = json.loads(line)
                    break
            if got is None:
                raise HarnessError(f"cross-process load produced no report: rc={proc.returncode} {proc.stderr[-300:]}")
            if "load_error" in got:
                problems.append(f"PYTHONHASHSEED={hs}: loading the saved JSON raised {got['load_error']}")
                continue
            diff = json_diff(parsed_json(text), parsed_json(got["json_again"]))
            if diff:
                problems.append(f"PYTHONHASHSEED={hs}: re-serialised JSON differs at {diff}")
            elif got["digest"] != expected:
                problems.append(f"PYTHONHASHSEED={hs}: transform output differs from the in-process reload")
            log.add("fresh", "load+transform", hs, "ok", got["digest"])
            result["stats"]["faults"]["restart_cross_process"] = result["stats"]["faults"].get("restart_cross_process", 0) + 1
    finally:
        shutil.rmtree(scratch, ignore_errors=True)
    if problems:
        result["violations"] = [
            {
                "property": "C06",
                "oracle": "cross_process_restart",
                "step": -1,
                "message": "; ".join(problems),
                "signature": {"oracle": "cross_process_restart"},
            }
        ]
    result.update(fingerprint=log.fingerprint(), sim_time=log.seq, nontrivial=True, steps=len(spec["hashseeds"]))
    return result


def cross_process_restarts(seed, tier, n_worlds, hashseeds):
    """A sample of restarts across a real process boundary (more of them in the thorough tier)."""
    import concurrent.futures as cf  # pylint: disable=C0415

    specs = []
    for idx in range(n_worlds):
        base = generate("C06", seed, idx, tier)
        specs.append(
            {"engine": "session", "mode": "xproc", "property": "C06", "seed": seed, "idx": idx, "tier": tier,
             "world": base["world"], "hashseeds": list(hashseeds), "ops": []}
        )
    import multiprocessing  # pylint: disable=C0415

    # processes, not threads: the scheduler stack of the seams is process-global
    with cf.ProcessPoolExecutor(max_workers=8, mp_context=multiprocessing.get_context("fork")) as ppool:
        results = list(ppool.map(execute_xproc, specs))
    violations = [
        {"idx": spec["idx"], "violation": viol, "spec": spec}
        for spec, res in zip(specs, results)
        for viol in res["violations"]
    ]
    executions = sum(res["stats"]["faults"].get("restart_cross_process", 0) for res in results)
    out = {
        "cross_process_restarts": {
            "label": "real process boundary: JSON saved here, loaded and transformed in fresh interpreters under other PYTHONHASHSEED values",
            "worlds": len(specs),
            "hashseeds": list(hashseeds),
            "executions": executions,
            "skipped_worlds_rejected_at_fit": sum(1 for res in results if res["world_rejected"]),
            "violations": len(violations),
        }
    }
    if violations:
        out["_violations"] = violations
    return out


def _load_digest_in_process(world, text):
    from AutoCarver import load_carver  # pylint: disable=C0415
    from AutoCarver.discretizers import load_discretizer  # pylint: disable=C0415

    loader = load_carver if worlds.is_carver(world) else load_discretizer
    obj = loader(json.loads(text))
    X, _ = worlds.build_frame(world, "train")
    feats = sorted(str(f) for f in obj.features)
    try:
        cf = canon_frame(obj.transform(X.copy(deep=True)))
        outs = {f: cf["values"].get(f) for f in feats}
    except Exception as err:  # pylint: disable=W0718
        outs = ["transform-error", type(err).__name__]
    return digest([feats, outs])


ENGINE = _Engine()
