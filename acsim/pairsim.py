"""pairsim: paired worlds for C10 — reference schedule vs seeded feature-order permutation x simulated
pool schedule x co-fitted subset."""
from __future__ import annotations

from . import seams, worlds
from .core import EventLog, Stats, canon_frame, canon_grouped_list, digest, import_autocarver, run_isolated, stream
from .models import DModel, ModelInvalid
from .session import Session, _Fail

PROP = "C10"


def generate(prop, seed, idx, tier="quick"):
    _ = prop
    rng = stream(seed, "pairsim", idx, "world")
    cfg = stream(seed, "pairsim", idx, "config")
    world = worlds.generate_world(rng, tier, min_features=2, max_features=5 if tier == "quick" else 6)
    names = [f["name"] for f in world["features"]]
    subset = None
    if cfg.random() < 0.5 and len(names) >= 2:
        k = cfg.randint(1, len(names) - 1)
        subset = sorted(cfg.sample(names, k))
    ops = []
    n = world["n"]
    ops.append({"op": "transform", "frame": {"base": "train", "rows": None, "index": "keep", "inject": [], "extra_cols": False}})
    if world.get("dev"):
        ops.append({"op": "transform", "frame": {"base": "dev", "rows": None, "index": "keep", "inject": [], "extra_cols": False}})
    ops.append({"op": "transform", "frame": {"base": "probe", "rows": None, "index": "keep", "inject": [], "extra_cols": False}})
    # a frame with an unexpected missing value, so that the rejection raised inside a worker has to
    # come back as the same AssertionError
    target_names = subset or names
    j = names.index(cfg.choice(target_names))
    ops.append(
        {
            "op": "transform",
            "frame": {
                "base": "train",
                "rows": sorted(cfg.sample(range(n), min(n, cfg.randint(2, 12)))),
                "index": "keep",
                "inject": [[cfg.randrange(1 << 20), j, "unseen_nan", None]],
                "extra_cols": cfg.random() < 0.5,
            },
        }
    )
    if cfg.random() < 0.5:
        ops.append(
            {
                "op": "transform",
                "frame": {
                    "base": "train",
                    "rows": sorted(cfg.sample(range(n), min(n, cfg.randint(1, 20)))),
                    "index": cfg.choice(["keep", "offset", "str"]),
                    "inject": [[cfg.randrange(1 << 20), cfg.randrange(len(names)), cfg.choice(["out_of_range", "unseen_category", "borrowed_category", "borrowed_category"]), cfg.choice(["below", "above"])]],
                    "extra_cols": False,
                    "col_perm": cfg.randrange(1 << 30),
                },
            }
        )
    for k, op in enumerate(ops):
        op["id"] = k
    return {
        "engine": "pairsim",
        "property": PROP,
        "seed": seed,
        "idx": idx,
        "tier": tier,
        "world": world,
        "subset": subset,
        "n_jobs_b": cfg.choice([1, 2, 2, 3, 4]),
        "ops": ops,
        "sched": {"mode": "prng"},
    }


def _fix_inject(recipe, world):
    """out_of_range on a qualitative feature is turned into an unseen category by resolve_frame's
    rules; payloads are normalised here so that both worlds build the same literal frame."""
    out = dict(recipe)
    fixed = []
    for pos, j, kind, payload in recipe.get("inject", []):
        feat = world["features"][j % len(world["features"])]
        if feat["kind"] == "quant":
            if kind in ("unseen_category", "borrowed_category"):
                kind, payload = "out_of_range", "above"
            if kind == "out_of_range" and payload not in ("below", "above", "between", "zero", "neg_zero", "inf", "neg_inf"):
                payload = "above"
        else:
            if kind == "out_of_range":
                kind, payload = "unseen_category", "zz_novel"
            if kind == "unseen_category" and payload in ("below", "above"):
                payload = "zz_novel"
        fixed.append([pos, j, kind, payload])
    out["inject"] = fixed
    return out


class _World:
    """One of the two worlds of a pair: a Session used as a toolbox, with its own scheduler."""

    def __init__(self, spec, reference: bool):
        sub = dict(spec, property="C10")
        self.sess = Session(sub)
        self.reference = reference
        if reference:
            self.sess.sched = seams.Scheduler(mode="identity", stats=self.sess.stats)
        else:
            self.sess.sched = seams.Scheduler(
                mode=spec.get("sched", {}).get("mode", "prng"),
                rng=stream(spec.get("seed"), "pairsim", spec.get("idx"), "sched"),
                decisions=spec.get("sched", {}).get("decisions"),
                stats=self.sess.stats,
            )
        self.obj = None
        self.fit_outcome = None

    def fit(self, spec):
        sess = self.sess
        sess.frames()
        only = None if self.reference else spec.get("subset")
        overrides = {"n_jobs": 1} if self.reference else {"n_jobs": spec["n_jobs_b"]}
        outcome = sess.lib(
            worlds.build_sut, sess.world, listing_perm=sess.listing_perm(), overrides=overrides, only=only
        )
        if outcome[0] == "ok":
            self.obj = outcome[1]
            X, y, kwargs = sess.fit_args()
            outcome = sess.lib(self.obj.fit, X, y, **kwargs)
        self.fit_outcome = outcome
        return outcome


def _real_digest(world, hashseed):
    """Digest of the reference fit of ``world`` in a fresh interpreter under a real PYTHONHASHSEED."""
    import json  # pylint: disable=C0415
    import os  # pylint: disable=C0415
    import shutil  # pylint: disable=C0415
    import subprocess  # pylint: disable=C0415
    import sys  # pylint: disable=C0415
    import tempfile  # pylint: disable=C0415

    here = os.path.dirname(os.path.dirname(os.path.abspath(__file__)))
    scratch = tempfile.mkdtemp(prefix="acsim_hs_")
    try:
        path = os.path.join(scratch, "spec.json")
        with open(path, "w", encoding="utf-8") as fobj:
            json.dump({"world": world}, fobj)
        env = dict(os.environ, PYTHONHASHSEED=str(hashseed), VERIF_NO_REEXEC="1")
        proc = subprocess.run(
            [sys.executable, "-m", "acsim.realcheck", path, "fit", "1"],
            capture_output=True, text=True, env=env, cwd=here, timeout=900, check=False,
        )
        for line in reversed(proc.stdout.splitlines()):
            if line.startswith("{"):
                return json.loads(line)["digest"]
        return f"no-report rc={proc.returncode} {proc.stderr[-200:]}"
    finally:
        shutil.rmtree(scratch, ignore_errors=True)


def execute_hashseed(spec):
    """mode 'hashseed': the same world fitted under two real PYTHONHASHSEED values (real builtin set,
    n_jobs=1, fresh interpreters); one hash seed is one exactly repeatable execution."""
    log = EventLog(spec.get("seed"), ["pairsim-hashseed", spec.get("idx")])
    digests = {str(h): _real_digest(spec["world"], h) for h in spec["hashseeds"]}
    for h in sorted(digests):
        log.add("real", "fit+transform", h, "ok", digests[h])
    violation = None
    if len(set(digests.values())) > 1:
        violation = {
            "property": PROP,
            "oracle": "hash_seed_independence",
            "step": -1,
            "message": f"fitted orders / outputs differ between PYTHONHASHSEED values: {digests}",
            "signature": {"oracle": "hash_seed_independence"},
        }
    return {
        "fingerprint": log.fingerprint(),
        "violations": [violation] if violation else [],
        "stats": {"faults": {"real_hashseed": len(digests)}},
        "nontrivial": True,
        "distinct_key": digest([spec["world"], spec["hashseeds"]]),
        "steps": len(digests),
        "skipped": 0,
        "sim_time": log.seq,
        "world_rejected": {},
    }


def hashseed_runs(prop, seed, tier, n_worlds, hashseeds):
    """Runs the first ``n_worlds`` generated worlds under each real hash seed (one subprocess per hash
    seed and chunk, in parallel) and returns (coverage, violations)."""
    import concurrent.futures as cf  # pylint: disable=C0415
    import json  # pylint: disable=C0415
    import os  # pylint: disable=C0415
    import shutil  # pylint: disable=C0415
    import subprocess  # pylint: disable=C0415
    import sys  # pylint: disable=C0415
    import tempfile  # pylint: disable=C0415

    here = os.path.dirname(os.path.dirname(os.path.abspath(__file__)))
    scratch = tempfile.mkdtemp(prefix="acsim_hsb_")
    chunk = max(1, n_worlds // 4)
    jobs = []
    for h in hashseeds:
        for start in range(0, n_worlds, chunk):
            jobs.append((h, list(range(start, min(n_worlds, start + chunk)))))

    def run(job):
        h, indices = job
        path = os.path.join(scratch, f"b_{h}_{indices[0]}.json")
        with open(path, "w", encoding="utf-8") as fobj:
            json.dump({"property": prop, "seed": seed, "tier": tier, "indices": indices}, fobj)
        env = dict(os.environ, PYTHONHASHSEED=str(h), VERIF_NO_REEXEC="1")
        proc = subprocess.run(
            [sys.executable, "-m", "acsim.realcheck", path, "batch"],
            capture_output=True, text=True, env=env, cwd=here, timeout=1800, check=False,
        )
        for line in reversed(proc.stdout.splitlines()):
            if line.startswith("{"):
                return h, json.loads(line)["digests"]
        raise RuntimeError(f"hash seed batch failed rc={proc.returncode}: {proc.stderr[-400:]}")

    table: dict = {}
    try:
        with cf.ThreadPoolExecutor(max_workers=min(16, len(jobs))) as pool:
            for h, digests in pool.map(run, jobs):
                for idx, dig in digests.items():
                    table.setdefault(idx, {})[str(h)] = dig
    finally:
        shutil.rmtree(scratch, ignore_errors=True)
    violations = []
    for idx in sorted(table, key=int):
        if len(set(table[idx].values())) > 1:
            base = generate(prop, seed, int(idx), tier)
            seeds = sorted(table[idx], key=lambda h: table[idx][h])
            spec = {
                "engine": "pairsim", "mode": "hashseed", "property": PROP, "seed": seed, "idx": int(idx),
                "tier": tier, "world": base["world"], "hashseeds": [int(seeds[0]), int(seeds[-1])], "ops": [],
            }
            res = execute_hashseed(spec)
            for viol in res["violations"]:
                violations.append({"idx": int(idx), "violation": viol, "spec": spec})
    coverage = {
        "real_hash_seed_runs": {
            "label": "the reference fit+transform of the first generated worlds repeated in fresh interpreters under real PYTHONHASHSEED values (builtin set, no SimSet, n_jobs=1); one hash seed is one repeatable execution",
            "worlds": len(table),
            "hashseeds": list(hashseeds),
            "executions": len(table) * len(hashseeds),
            "worlds_with_differing_results": len(violations),
        }
    }
    return coverage, violations


def _outcome_data(outcome):
    """A lib() outcome as plain data."""
    if outcome[0] == "ok":
        return ["ok", None, None]
    return [outcome[0], type(outcome[1]).__name__, str(outcome[1])[:400]]


def world_summary(spec, reference, frames=None):
    """Runs one world of the pair (fit + the transform workload) and returns plain data.

    The reference world builds the literal frames (the probe comes from its own fitted orders) and
    returns them so that the perturbed world transforms exactly the same frames."""
    wld = _World(spec, reference)
    sess = wld.sess
    fit = wld.fit(spec)
    summary = {"fit": _outcome_data(fit), "features": [], "raw_of": {}, "orders": {}, "orders_repr": {}, "ops": [], "frames": []}
    if fit[0] == "ok":
        obj = wld.obj
        summary["features"] = [str(f) for f in obj.features]
        summary["raw_of"] = {str(f): _raw(obj, f) for f in obj.features}
        for feat in obj.features:
            summary["orders"][str(feat)] = canon_grouped_list(obj.values_orders[feat])
            summary["orders_repr"][str(feat)] = f"{list(obj.values_orders[feat])!r} {dict(obj.values_orders[feat].content)!r}"
        model = None
        if reference:
            try:
                model = DModel(obj, worlds.expected_sentinels(spec["world"]))
            except ModelInvalid:
                model = None
            sess.model, sess.live = model, obj
        for step, op in enumerate(spec["ops"]):
            if op["op"] != "transform":
                continue
            if reference:
                recipe = _fix_inject(op["frame"], spec["world"])
                if recipe["base"] == "probe" and model is None:
                    summary["frames"].append(None)
                    summary["ops"].append(None)
                    continue
                frame, meta = sess.resolve_frame(recipe)
                summary["frames"].append([frame, {"base": meta["base"], "key": meta["key"], "rows": len(frame)}])
            else:
                if not frames or len(summary["ops"]) >= len(frames) or frames[len(summary["ops"])] is None:
                    summary["ops"].append(None)  # the reference world built no frame here
                    continue
                frame, meta = frames[len(summary["ops"])]
                sess.fork_sched(op.get("id", step))
            outcome, _ = sess.call_transform(wld.obj, frame)
            data = _outcome_data(outcome)
            if outcome[0] == "ok":
                data.append(canon_frame(outcome[1]))
            summary["ops"].append(data)
    summary["sched_decisions"] = sess.sched.decisions
    summary["sched_signature"] = sess.sched.signature()
    summary["sched_nontrivial"] = sess.sched.nontrivial()
    summary["stats"] = sess.stats.as_dict()
    return summary


def execute(spec):
    if spec.get("mode") == "hashseed":
        return execute_hashseed(spec)
    import_autocarver()
    seams.install()
    world = spec["world"]
    stats = Stats()
    log = EventLog(spec.get("seed"), ["pairsim", spec.get("idx")])
    violation = None
    step = -1
    compared_features = 0
    kept_features = 0
    ref = run_isolated(world_summary, spec, True)
    per = run_isolated(world_summary, spec, False, ref["frames"])
    for section, values in per["stats"].items():
        for key, val in values.items():
            getattr(stats, section)[key] = getattr(stats, section).get(key, 0) + val
    try:
        a, b = ref["fit"], per["fit"]
        log.add("A", "fit", None, a[0], a[1])
        log.add("B", "fit", None, b[0], b[1])
        subset = spec.get("subset")
        if subset:
            stats.fault("subset_features")
        if a[0] != "ok":
            stats.count("world_A_fit_rejected")
            if not subset and b[0] == "ok":
                raise _Fail(PROP, "fit_outcome", f"reference fit raised {a[1]}: {a[2][:120]} but the permuted/pooled fit succeeded")
            if not subset and a[1] != b[1]:
                raise _Fail(PROP, "fit_outcome", f"reference fit raised {a[1]}, permuted/pooled fit raised {b[1]}: {b[2][:160]}")
        elif b[0] != "ok":
            # every feature is processed independently: a subset of an accepted fit must be accepted
            raise _Fail(
                PROP,
                "fit_outcome",
                f"reference fit succeeded, permuted/pooled{'/subset' if subset else ''} fit raised {b[1]}: {b[2][:200]}",
                {"exception": b[1]},
            )
        else:
            raw_in_scope = set(subset) if subset else {f["name"] for f in world["features"]}
            feats_a = {f for f in ref["features"] if ref["raw_of"][f] in raw_in_scope}
            feats_b = set(per["features"])
            kept_features = len(feats_a)
            if feats_a != feats_b:
                raise _Fail(
                    PROP,
                    "kept_features",
                    f"kept in the reference world: {sorted(feats_a)}, in the perturbed world: {sorted(feats_b)}",
                )
            for feat in sorted(feats_a):
                if ref["orders"][feat] != per["orders"][feat]:
                    raise _Fail(PROP, "values_orders", f"{feat}: reference {ref['orders_repr'][feat]} vs perturbed {per['orders_repr'][feat]}")
                compared_features += 1
            log.add("AB", "orders", None, "equal", digest([ref["orders"][f] for f in sorted(feats_a)]))
            for step, (out_a, out_b, fr) in enumerate(zip(ref["ops"], per["ops"], ref["frames"])):
                if out_a is None or out_b is None:
                    continue
                meta = fr[1]
                log.add("A", "transform", meta["key"], out_a[0])
                log.add("B", "transform", meta["key"], out_b[0])
                where = f"step {step} transform({meta['base']}, {meta['rows']} rows)"
                if out_a[0] != "ok":
                    named = [f for f in feats_a if f in out_a[2] or ref["raw_of"][f] in out_a[2]]
                    others = [f["name"] for f in world["features"] if f["name"] in out_a[2] and f["name"] not in raw_in_scope]
                    if others and not named:
                        stats.count("frame_skipped_rejected_by_feature_outside_subset")
                        continue
                    if out_b[0] == "ok":
                        raise _Fail(PROP, "same_rejection", f"{where}: reference -> {out_a[1]}: {out_a[2][:140]}; perturbed world accepted")
                    if out_a[1] != out_b[1]:
                        raise _Fail(
                            PROP,
                            "same_rejection",
                            f"{where}: reference -> {out_a[1]}, perturbed -> {out_b[1]}: {out_b[2][:160]}",
                            {"exception": out_b[1]},
                        )
                    if out_b[0] == "reject":
                        stats.probe("rejection_came_back_from_worker" if spec["n_jobs_b"] > 1 else "rejection_same_class")
                    continue
                if out_b[0] != "ok":
                    raise _Fail(
                        PROP,
                        "same_rejection",
                        f"{where}: reference accepted, perturbed -> {out_b[1]}: {out_b[2][:200]}",
                        {"exception": out_b[1]},
                    )
                ca, cb = out_a[3], out_b[3]
                if ca["index"] != cb["index"]:
                    raise _Fail(PROP, "same_output", f"{where}: output indices differ")
                for feat in sorted(feats_a):
                    if ca["values"].get(feat) != cb["values"].get(feat):
                        va, vb = ca["values"].get(feat), cb["values"].get(feat)
                        pos = None
                        if va is not None and vb is not None:
                            pos = [i for i, (x, y) in enumerate(zip(va, vb)) if x != y][:1]
                        raise _Fail(
                            PROP,
                            "same_output",
                            f"{where}: column {feat} differs"
                            + (f" first at row {pos[0]}: {va[pos[0]]} vs {vb[pos[0]]}" if pos else " (missing in one world)"),
                        )
                log.add("AB", "outputs", meta["key"], "equal", digest([ca["values"].get(f) for f in sorted(feats_a)]))
    except _Fail as fail:
        violation = {
            "property": PROP,
            "oracle": fail.oracle,
            "step": step,
            "message": fail.message,
            "signature": fail.signature,
        }
        log.add("sim", "violation", None, fail.oracle)
    if per["sched_nontrivial"]:
        stats.probe("schedule_differs_from_reference")
    rejected = {}
    if ref["fit"][0] != "ok":
        rejected[ref["fit"][1]] = 1
    decisions = per["sched_decisions"]
    return {
        "fingerprint": log.fingerprint(),
        "violations": [violation] if violation else [],
        "stats": stats.as_dict(),
        "nontrivial": bool(per["sched_nontrivial"] and kept_features >= 2),
        "distinct_key": digest([spec["world"], spec["ops"], spec.get("subset"), per["sched_signature"]]),
        "sched_key": per["sched_signature"],
        "sched_decisions": decisions if len(decisions) <= 20000 else None,
        "steps": len(spec["ops"]) + 2,
        "skipped": 0,
        "sim_time": log.seq + len(decisions),
        "world_rejected": rejected,
        "compared_features": compared_features,
    }


def _raw(obj, feat):
    for raw, cast in obj.features_casting.items():
        if feat in cast:
            return str(raw)
    return str(feat)


class _Engine:
    name = "pairsim"

    @staticmethod
    def generate(prop, seed, idx, tier):
        return generate(prop, seed, idx, tier)

    @staticmethod
    def execute(spec):
        return execute(spec)

    @staticmethod
    def sample_of(spec, res):
        world = spec["world"]
        return {
            "system": world["sut"],
            "rows": world["n"],
            "features": [{"name": f["name"], "kind": f["kind"], "first_values": f["values"][:6]} for f in world["features"]],
            "world_A": "identity schedule, n_jobs=1, all features",
            "world_B": {"n_jobs": spec["n_jobs_b"], "subset": spec.get("subset"), "schedule": "prng", "schedule_signature": res.get("sched_key")},
            "operations": spec["ops"],
        }

    @staticmethod
    def reductions(spec):
        from .session import ENGINE as SESSION_ENGINE  # pylint: disable=C0415

        names = [f["name"] for f in spec["world"]["features"]]
        for cand in SESSION_ENGINE.reductions(spec):
            cn = [f["name"] for f in cand["world"]["features"]]
            if len(cn) < 2 and len(names) >= 2:
                continue
            if cand.get("subset"):
                sub = [s for s in cand["subset"] if s in cn]
                if not sub or len(sub) == len(cn):
                    sub = None
                cand = dict(cand, subset=sub)
            yield cand
        if spec.get("subset"):
            yield dict(spec, subset=None)
        if spec.get("n_jobs_b", 2) > 2:
            yield dict(spec, n_jobs_b=2)

    @staticmethod
    def plan(prop, tier):
        _ = prop
        quick = tier == "quick"
        return {
            "n_runs": 5000 if quick else 100000,
            "chunk": 6,
            "wall_budget_s": 110 if quick else 1500,
            "level": "exploration",
            "selfcheck_runs": 6,
            "shrink_budget_s": 120,
            "rule": (
                "pairs of worlds from one seed: A = identity schedule (sorted set iteration, listed order, "
                "n_jobs=1, all features), B = every set iteration permuted, feature listing and DataFrame "
                "columns permuted, n_jobs in 2..4 on SimPool with seeded start/completion order and snapshot "
                "instants, and in half of the runs only a subset of the features; fit then transforms of "
                "train/dev/all-known-values probe/unexpected-NaN/out-of-range frames; per feature: kept iff "
                "kept, equal values_orders, equal output cells, equal rejection class. distinct = digest of "
                "(world, operations, subset, schedule signature); non-trivial = B's schedule differs from the "
                "reference in at least one decision and at least 2 features kept"
            ),
            "assumptions": [
                "SimPool models process isolation (pickle boundary) and feasible start/completion orders with at most n in flight; task bodies are atomic (workers share no memory)",
                "SimSet decides the iteration order of the sets of feature names in base_discretizers/base_carver/discretizers; other hash-dependent behaviour of dependencies is not perturbed here (fingerprints are checked under another PYTHONHASHSEED)",
                "sampled worlds and schedules; a clean batch is evidence, not proof",
            ],
        }

    @staticmethod
    def components():
        rep = seams.report()
        rep["isolation"] = (
            "each world of a pair (fit + transform workload) runs in its own child forked from the same "
            "parent state and returns plain data: nothing process-global is shared between the two worlds "
            "or between one run and the next"
        )
        rep["real_mechanisms_also_run"] = [
            "reference fits under real PYTHONHASHSEED values in fresh interpreters (builtin set, n_jobs=1)",
            "thorough tier: real multiprocessing.Pool (n_jobs=2) cross-check",
        ]
        return rep

    @staticmethod
    def extra_coverage(prop, seed, tier, total):
        """Thorough tier: 16 worlds re-fitted in fresh interpreters under 4 real PYTHONHASHSEED values
        with the real multiprocessing.Pool (n_jobs=2); digests must equal the simulated reference."""
        _ = total
        quick = tier != "thorough"
        coverage, violations = hashseed_runs(
            prop, seed, tier, n_worlds=160 if quick else 800, hashseeds=(0, 1, 4242) if quick else (0, 1, 77, 4242, 987654)
        )
        if violations:
            coverage["_violations"] = violations
        if quick:
            coverage["stub_cross_check"] = "thorough tier only"
            return coverage
        more = stub_cross_check(prop, seed, tier, n_worlds=16, hashseeds=(1, 77, 4242, 987654))
        coverage.update(more)
        return coverage


def stub_cross_check(prop, seed, tier, n_worlds, hashseeds):
    import json  # pylint: disable=C0415
    import os  # pylint: disable=C0415
    import shutil  # pylint: disable=C0415
    import subprocess  # pylint: disable=C0415
    import sys  # pylint: disable=C0415
    import tempfile  # pylint: disable=C0415

    from .realcheck import reference_digest  # pylint: disable=C0415

    here = os.path.dirname(os.path.dirname(os.path.abspath(__file__)))
    scratch = tempfile.mkdtemp(prefix="acsim_real_")
    checked, mismatches, skipped = 0, [], 0
    try:
        idx = 0
        while checked < n_worlds and idx < 400:
            spec = generate(prop, seed, idx, tier)
            idx += 1
            with seams.scheduling(seams.Scheduler(mode="identity")):
                ref = reference_digest(spec["world"], 1, install_seams=True)
            if not isinstance(ref, tuple):
                skipped += 1
                continue
            path = os.path.join(scratch, f"spec{idx}.json")
            with open(path, "w", encoding="utf-8") as fobj:
                json.dump({"world": spec["world"]}, fobj)
            for hs in hashseeds:
                env = dict(os.environ, PYTHONHASHSEED=str(hs), VERIF_NO_REEXEC="1")
                proc = subprocess.run(
                    [sys.executable, "-m", "acsim.realcheck", path, "fit", "2"],
                    capture_output=True, text=True, env=env, cwd=here, timeout=600, check=False,
                )
                got = None
                for line in reversed(proc.stdout.splitlines()):
                    if line.startswith("{"):
                        got = json.loads(line)["digest"]
                        break
                if got != ref[0]:
                    mismatches.append({"run": idx - 1, "hashseed": hs, "simulated": ref[0], "real": got, "stderr": proc.stderr[-300:]})
            checked += 1
    finally:
        shutil.rmtree(scratch, ignore_errors=True)
    out = {
        "stub_cross_check": {
            "label": "real, uncontrolled schedule (real multiprocessing.Pool n_jobs=2, real PYTHONHASHSEED values, fresh interpreters) - stub cross-check, not a simulated run",
            "worlds": checked,
            "hashseeds": list(hashseeds),
            "executions": checked * len(hashseeds),
            "skipped_worlds_rejected_at_fit": skipped,
            "mismatches": mismatches,
        }
    }
    if mismatches:
        out["_mismatch"] = True
    return out


ENGINE = _Engine()
