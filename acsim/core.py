"""Core of the AutoCarver deterministic simulator: seeds, canonical forms, event log.

Nothing in this module draws from a PRNG or reads a clock in a logging path.
"""
from __future__ import annotations

import hashlib
import json
import math
import os
import random
import sys

# --------------------------------------------------------------------------------------
# locating the code under test

AUTOCARVER_SRC = os.environ.get("AUTOCARVER_SRC", "/repo")


def import_autocarver():
    """Imports AutoCarver from AUTOCARVER_SRC's working tree (default /repo) and asserts it."""
    src = os.path.abspath(AUTOCARVER_SRC)
    if sys.path[0] != src:
        sys.path.insert(0, src)
    import AutoCarver  # pylint: disable=C0415

    got = os.path.abspath(AutoCarver.__file__)
    if not got.startswith(src + os.sep):
        raise HarnessError(f"AutoCarver imported from {got}, expected under {src}")
    return AutoCarver


class HarnessError(Exception):
    """Raised by harness code; never reported as a property violation."""


class Violation(Exception):
    """A property oracle failed."""

    def __init__(self, prop: str, oracle: str, message: str, detail=None):
        super().__init__(f"{prop}/{oracle}: {message}")
        self.prop = prop
        self.oracle = oracle
        self.message = message
        self.detail = detail


# --------------------------------------------------------------------------------------
# one integer decides everything


def derive(seed, *names) -> int:
    """Derives a 64-bit integer from a seed and a path of names."""
    text = "/".join([str(seed)] + [str(n) for n in names])
    return int.from_bytes(hashlib.sha256(text.encode()).digest()[:8], "big")


def stream(seed, *names) -> random.Random:
    """Independent PRNG stream derived by sha256(seed/name/...)."""
    return random.Random(derive(seed, *names))


# --------------------------------------------------------------------------------------
# canonical forms (no dtypes, no addresses, no hash())


def canon_value(x, loose: bool = False):
    """Canonical, JSON-serialisable form of a scalar.

    strict: ints and floats are kept apart; loose: every number is its float repr.
    """
    if x is None:
        return ["none"]
    if isinstance(x, str):
        return ["s", str(x)]
    if isinstance(x, (bool,)) or type(x).__name__ == "bool_":
        return ["b", bool(x)]
    try:
        import numpy as np  # pylint: disable=C0415

        if isinstance(x, np.generic):
            if isinstance(x, np.str_):
                return ["s", str(x)]
            if isinstance(x, np.integer):
                x = int(x)
            elif isinstance(x, np.floating):
                x = float(x)
    except ImportError:  # pragma: no cover
        pass
    if isinstance(x, int):
        if loose:
            return ["n", repr(float(x))]
        return ["i", x]
    if isinstance(x, float):
        if math.isnan(x):
            return ["nan"]
        if loose:
            return ["n", repr(x)]
        return ["f", repr(x)]
    # pandas NA / NaT
    try:
        import pandas as pd  # pylint: disable=C0415

        if pd.isna(x):
            return ["nan"]
    except (ImportError, TypeError, ValueError):
        pass
    return ["o", type(x).__name__, repr(x)]


def canon(obj, loose: bool = False):
    """Canonical form of nested lists/dicts/scalars; dict keys are sorted by their canon text."""
    if isinstance(obj, dict):
        items = [(json.dumps(canon(k, loose), sort_keys=True), canon(v, loose)) for k, v in obj.items()]
        items.sort(key=lambda kv: kv[0])
        return {"d": items}
    if isinstance(obj, (list, tuple)):
        return [canon(v, loose) for v in obj]
    return canon_value(obj, loose)


def digest(obj) -> str:
    """sha1 of a JSON-serialisable canonical object."""
    return hashlib.sha1(json.dumps(obj, sort_keys=True, default=str).encode()).hexdigest()


def canon_frame(df, loose: bool = True):
    """Canonical form of a DataFrame: index labels, column names, cell values (NaN marked)."""
    return {
        "index": [canon_value(i) for i in df.index],
        "columns": [str(c) for c in df.columns],
        "values": {str(c): [canon_value(v, loose) for v in df[c].tolist()] for c in df.columns},
    }


def canon_grouped_list(gl, loose: bool = True):
    """Canonical form of a GroupedList: leaders in order, members sorted by canon text."""
    out = []
    for leader in list(gl):
        members = [canon_value(m, loose) for m in gl.content.get(leader, [])]
        members.sort(key=json.dumps)
        out.append([canon_value(leader, loose), members])
    return out


# --------------------------------------------------------------------------------------
# event log


class EventLog:
    """Append-only event log; its sha1 is the run's fingerprint."""

    def __init__(self, seed, header=None):
        self.events = [["seed", seed, header]]
        self.seq = 0

    def add(self, actor: str, op: str, args_digest=None, outcome: str = None, result_digest=None):
        self.seq += 1
        self.events.append([self.seq, actor, op, args_digest, outcome, result_digest])
        return self.seq

    def fingerprint(self) -> str:
        return digest(self.events)


# --------------------------------------------------------------------------------------
# counters


class Stats:
    """Counters for fault kinds that actually fired, probes, and plain counts."""

    def __init__(self):
        self.faults: dict[str, int] = {}
        self.probes: dict[str, int] = {}
        self.counts: dict[str, int] = {}

    def fault(self, kind: str, n: int = 1):
        self.faults[kind] = self.faults.get(kind, 0) + n

    def probe(self, name: str, n: int = 1):
        self.probes[name] = self.probes.get(name, 0) + n

    def count(self, name: str, n: int = 1):
        self.counts[name] = self.counts.get(name, 0) + n

    def as_dict(self):
        return {"faults": dict(self.faults), "probes": dict(self.probes), "counts": dict(self.counts)}

    @staticmethod
    def merge(into: dict, other: dict):
        for section in ("faults", "probes", "counts"):
            dst = into.setdefault(section, {})
            for key, val in other.get(section, {}).items():
                dst[key] = dst.get(key, 0) + val
        return into


# --------------------------------------------------------------------------------------
# share-nothing execution


def run_isolated(func, *args):
    """Runs func(*args) in a forked child and returns its (picklable) result.

    Each world of a pair runs in its own child forked from the same parent state, so that nothing
    process-global (a memoisation cache, a module-level dict) carries from one world to the other or
    from one run to the next: the two fits share nothing but the code, like two user processes.
    """
    import os  # pylint: disable=C0415
    import pickle  # pylint: disable=C0415

    read_fd, write_fd = os.pipe()
    pid = os.fork()
    if pid == 0:  # child
        status = 0
        try:
            os.close(read_fd)
            try:
                payload = pickle.dumps(("ok", func(*args)), protocol=pickle.HIGHEST_PROTOCOL)
            except BaseException as err:  # pylint: disable=W0718
                import traceback  # pylint: disable=C0415

                payload = pickle.dumps(("harness_error", f"{type(err).__name__}: {err}\n{traceback.format_exc(limit=6)}"))
            with os.fdopen(write_fd, "wb") as out:
                out.write(payload)
        except BaseException:  # pylint: disable=W0718
            status = 1
        finally:
            os._exit(status)  # pylint: disable=W0212
    os.close(write_fd)
    chunks = []
    import select  # pylint: disable=C0415
    import signal  # pylint: disable=C0415
    import time  # pylint: disable=C0415

    deadline = time.monotonic() + float(os.environ.get("VERIF_RUN_CAP_S", "900"))
    try:
        while True:
            left = deadline - time.monotonic()
            ready, _, _ = select.select([read_fd], [], [], max(0.0, min(left, 5.0)))
            if ready:
                block = os.read(read_fd, 1 << 20)
                if not block:
                    break
                chunks.append(block)
            elif left <= 0:
                # a hung run must not survive its parent: kill it and report a harness timeout
                os.kill(pid, signal.SIGKILL)
                os.waitpid(pid, 0)
                raise HarnessError("HARNESS_TIMEOUT: isolated run exceeded its wall cap and was killed")
    finally:
        os.close(read_fd)
    _, code = os.waitpid(pid, 0)
    if code != 0 or not chunks:
        raise HarnessError(f"isolated world died (status {code})")
    kind, value = pickle.loads(b"".join(chunks))
    if kind != "ok":
        raise HarnessError(f"isolated world raised {value}")
    return value


