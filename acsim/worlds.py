"""Literal, JSON-serialisable worlds (data + system under simulation), swarm style.

A world holds the *values*, not generator parameters, so that a replay file does not depend on
any generator and so that rows/columns can be dropped by the shrinker.  None marks a missing value.
"""
from __future__ import annotations

import math

CARVERS = ("BinaryCarver", "ContinuousCarver", "MulticlassCarver")
SUT_WEIGHTS = [
    ("BinaryCarver", 26),
    ("ContinuousCarver", 16),
    ("MulticlassCarver", 12),
    ("Discretizer", 18),
    ("QuantitativeDiscretizer", 6),
    ("QualitativeDiscretizer", 6),
    ("ContinuousDiscretizer", 6),
    ("CategoricalDiscretizer", 5),
    ("OrdinalDiscretizer", 5),
    ("StringDiscretizer", 4),
    ("BaseDiscretizer", 9),
    ("ChainedDiscretizer", 5),
]
ALLOWED_KINDS = {
    "BinaryCarver": ("quant", "cat", "ord"),
    "ContinuousCarver": ("quant", "cat", "ord"),
    "MulticlassCarver": ("quant", "cat", "ord"),
    "Discretizer": ("quant", "cat", "ord"),
    "QuantitativeDiscretizer": ("quant",),
    "QualitativeDiscretizer": ("cat", "ord"),
    "ContinuousDiscretizer": ("quant",),
    "CategoricalDiscretizer": ("cat_str",),
    "OrdinalDiscretizer": ("ord",),
    "StringDiscretizer": ("cat_num",),
    "BaseDiscretizer": ("quant", "cat", "ord"),
    "ChainedDiscretizer": ("cat_str",),
}
TARGET_OF = {
    "BinaryCarver": "binary",
    "ContinuousCarver": "continuous",
    "MulticlassCarver": "multiclass",
}

CAT_POOLS = [
    ["red", "green", "blue", "black", "white", "grey", "pink"],
    ["A", "B", "C", "D", "E", "F", "G", "H"],
    ["x1", "x2", "x3", "x4", "x5"],
    ["north", "south", "east", "west"],
]
ORD_POOLS = [
    ["Low-", "Low", "Low+", "Medium-", "Medium", "Medium+", "High-", "High", "High+"],
    ["r1", "r2", "r3", "r4", "r5", "r6"],
    ["XS", "S", "M", "L", "XL"],
]


def weighted(rng, pairs):
    total = sum(w for _, w in pairs)
    pick = rng.random() * total
    for item, weight in pairs:
        pick -= weight
        if pick < 0:
            return item
    return pairs[-1][0]


def _zipf_weights(n, rng):
    alpha = rng.choice([0.0, 0.7, 1.2, 2.0])
    return [1.0 / (i + 1) ** alpha for i in range(n)]


def _draw_quant(rng, n, spec):
    """Draws n values and a latent in [0,1] for one quantitative feature."""
    sub = spec["sub"]
    scale = spec["scale"]
    shift = spec["shift"]
    vals, lat = [], []
    for _ in range(n):
        u = rng.random()
        if sub == "normal":
            x = rng.gauss(0, 1)
            latent = 0.5 * (1 + math.erf(x / math.sqrt(2)))
        elif sub == "uniform":
            x = u
            latent = u
        elif sub == "lognormal":
            z = rng.gauss(0, 1)
            x = math.exp(z)
            latent = 0.5 * (1 + math.erf(z / math.sqrt(2)))
        elif sub == "discrete":
            k = spec["levels"]
            # spikes: a few heavy levels
            if rng.random() < spec["spike_p"]:
                lvl = spec["spikes"][rng.randrange(len(spec["spikes"]))]
            else:
                lvl = rng.randrange(k)
            x = float(lvl)
            latent = lvl / max(1, k - 1)
        elif sub == "months":
            lvl = rng.randrange(12)
            x = float(202301 + lvl)
            latent = lvl / 11
        elif sub == "zeros":
            # contains 0.0, negative zero and small values around zero
            lvl = rng.choice([-2.0, -1.0, -0.0, 0.0, 0.0, 1.0, 2.0, 3.0])
            x = lvl
            latent = (lvl + 2) / 5
        else:  # ties: few distinct real values
            lvl = rng.randrange(spec["levels"])
            x = spec["grid"][lvl]
            latent = lvl / max(1, spec["levels"] - 1)
        if sub not in ("months",):
            x = x * scale + shift
        if spec["dtype"] == "float32":
            import struct  # pylint: disable=C0415

            try:
                x = struct.unpack("f", struct.pack("f", x))[0]
            except OverflowError:
                x = math.copysign(3.0e38, x)
            if math.isinf(x):  # the data stays finite: inf is not a well-formed input
                x = struct.unpack("f", struct.pack("f", math.copysign(3.0e38, x)))[0]
        if spec["dtype"] == "int":
            x = int(round(x))
        vals.append(x)
        lat.append(latent)
    return vals, lat


def _quant_spec(rng):
    sub = weighted(
        rng,
        [
            ("normal", 5),
            ("uniform", 4),
            ("lognormal", 2),
            ("discrete", 6),
            ("months", 2),
            ("zeros", 2),
            ("ties", 3),
        ],
    )
    spec = {"sub": sub, "scale": 1.0, "shift": 0.0, "dtype": "float64"}
    if sub in ("normal", "uniform", "lognormal"):
        spec["scale"] = rng.choice([1.0, 1.0, 1.0, 1e-9, 1e-3, 1e3, 1e6, 1e12, 37.5, 1e21, 1e-30, 1e300])
        spec["shift"] = rng.choice([0.0, 0.0, 0.0, -5.0, 100.0, 1e6])
        spec["dtype"] = rng.choice(["float64", "float64", "float64", "float32"])
    if sub == "discrete":
        spec["levels"] = rng.randint(2, 15)
        n_sp = rng.randint(1, min(3, spec["levels"]))
        spec["spikes"] = rng.sample(range(spec["levels"]), n_sp)
        spec["spike_p"] = rng.choice([0.0, 0.3, 0.6])
        spec["dtype"] = rng.choice(["float64", "float64", "int"])
        spec["scale"] = rng.choice([1.0, 1.0, 10.0, 0.5])
        if spec["dtype"] == "int":
            spec["scale"] = rng.choice([1.0, 10.0])
    if sub == "ties":
        spec["levels"] = rng.randint(3, 9)
        grid = sorted(rng.uniform(-10, 10) for _ in range(spec["levels"]))
        spec["grid"] = grid
    if sub == "zeros":
        spec["dtype"] = "float64"
    if sub == "months":
        spec["dtype"] = rng.choice(["float64", "int"])
    return spec


def _cat_spec(rng, numeric_only=False, str_only=False):
    choice = rng.random()
    if str_only:
        choice = 0.0
    if numeric_only:
        choice = 0.9
    if choice < 0.7:
        pool = list(rng.choice(CAT_POOLS))
        rng.shuffle(pool)
        k = rng.randint(2, len(pool))
        cats = pool[:k]
        sub = "str"
    else:
        k = rng.randint(2, 7)
        form = rng.choice(["int", "intfloat", "float", "mixed_str", "bool", "flag01"])
        if form == "bool":
            k = 2
            cats = [True, False]
        elif form == "flag01":
            k = 2
            cats = rng.choice([[0, 1], [0.0, 1.0]])
        elif form == "int":
            cats = list(range(1, k + 1))
        elif form == "intfloat":
            cats = [float(i) for i in range(1, k + 1)]
        elif form == "float":
            cats = [i + 0.5 for i in range(1, k + 1)]
        else:  # strings and other numbers, never a number together with its own string form
            cats = [str(i) if i % 2 else i for i in range(1, k + 1)]
        sub = "num_" + form
    weights = _zipf_weights(len(cats), rng)
    effects = [rng.random() for _ in cats]
    spec = {"sub": sub, "cats": cats, "weights": weights, "effects": effects}
    if sub in ("num_int", "num_intfloat", "num_float", "num_flag01") and rng.random() < 0.5:
        # a numeric pandas dtype instead of python objects (values come out of pandas as numpy scalars)
        spec["col_dtype"] = "int64" if all(isinstance(c, int) for c in cats) else "float64"
    return spec


def _ord_spec(rng, allow_numeric=True):
    if allow_numeric and rng.random() < 0.3:
        # numeric-valued ordinal feature ranked through the string forms of its values; the ranking
        # may lack observed values (they are appended to it by the string conversion step)
        k = rng.randint(3, 7)
        numbers = [float(i) for i in range(1, k + 1)] if rng.random() < 0.5 else list(range(1, k + 1))
        ranking = [str(i) for i in range(1, k + 1)]
        if rng.random() < 0.4:
            for gone in rng.sample(ranking, rng.choice([1, 2])):
                if len(ranking) > 2:
                    ranking.remove(gone)
        weights = _zipf_weights(len(numbers), rng)
        rng.shuffle(weights)
        spec = {"ranking": ranking, "observed": numbers, "weights": weights, "sub": "num"}
        if rng.random() < 0.5:
            spec["col_dtype"] = "float64"
        return spec
    pool = list(rng.choice(ORD_POOLS))
    k = rng.randint(3, len(pool))
    start = rng.randint(0, len(pool) - k)
    ranking = pool[start : start + k]
    # possibly never observed values in the ranking
    observed = list(ranking)
    if rng.random() < 0.3 and len(observed) > 3:
        observed.remove(rng.choice(observed))
    weights = _zipf_weights(len(observed), rng)
    rng.shuffle(weights)
    return {"ranking": ranking, "observed": observed, "weights": weights}


def _draw_cat(rng, n, spec):
    vals, lat = [], []
    for _ in range(n):
        i = _windex(rng, spec["weights"])
        vals.append(spec["cats"][i])
        lat.append(spec["effects"][i])
    return vals, lat


def _draw_ord(rng, n, spec):
    vals, lat = [], []
    k = len(spec["ranking"])
    for _ in range(n):
        i = _windex(rng, spec["weights"])
        val = spec["observed"][i]
        vals.append(val)
        if spec.get("sub") == "num":
            lat.append(i / max(1, len(spec["observed"]) - 1))
        else:
            lat.append(spec["ranking"].index(val) / max(1, k - 1))
    return vals, lat


def _windex(rng, weights):
    total = sum(weights)
    pick = rng.random() * total
    for i, weight in enumerate(weights):
        pick -= weight
        if pick < 0:
            return i
    return len(weights) - 1


def _apply_nan(rng, vals, rate):
    return [None if rng.random() < rate else v for v in vals]


def _make_index(rng, n, kind):
    if kind == "range":
        return list(range(n))
    if kind == "offset":
        return list(range(1000, 1000 + n))
    if kind == "shuffled":
        labels = list(range(n))
        rng.shuffle(labels)
        return labels
    return [f"row{i:04d}" for i in range(n)]


def _target(rng, kind, latents, n, tspec):
    """Target values from the mean latent of the rows plus noise."""
    ys = []
    for i in range(n):
        lat = sum(l[i] for l in latents) / max(1, len(latents)) if latents else 0.5
        noise = rng.gauss(0, tspec["noise"])
        score = tspec["slope"] * (lat - 0.5) + noise
        if kind == "binary":
            p = 1 / (1 + math.exp(-(score * 4 + tspec["bias"])))
            ys.append(1 if rng.random() < p else 0)
        elif kind == "multiclass":
            k = len(tspec["classes"])
            pos = min(k - 1, max(0, int((1 / (1 + math.exp(-score * 3))) * k + rng.gauss(0, 0.4))))
            ys.append(tspec["classes"][pos])
        else:
            val = score * 10
            if tspec["round"] is not None:
                val = round(val, tspec["round"])
            ys.append(val)
    # making sure every class is present
    if kind == "binary":
        if 0 not in ys:
            ys[0] = 0
        if 1 not in ys:
            ys[-1] = 1
    elif kind == "multiclass":
        for j, cls in enumerate(tspec["classes"]):
            if cls not in ys:
                ys[j % n] = cls
    else:
        if len(set(ys)) < 3:
            ys[0], ys[-1] = ys[0] + 1.5, ys[-1] - 2.5
    return ys


def _chained_world(rng, tier, min_features, max_features):
    """A world for ChainedDiscretizer: features drawn from the leaves of a random hierarchy (2-3 levels,
    uneven fan-out, possibly never-observed members), optional unknown values."""
    n = int(round(math.exp(rng.uniform(math.log(30), math.log(300 if tier == "quick" else 400)))))
    n_leaves = rng.randint(3, 9)
    leaves = [f"v{i}" for i in range(n_leaves)]
    levels = []
    current = list(leaves)
    prefix = ["G", "H", "K"]
    for depth in range(rng.choice([1, 2, 2, 3])):
        if len(current) < 2:
            break
        groups, rest, k = [], list(current), 0
        while rest:
            size = min(len(rest), rng.choice([1, 2, 2, 3, 4]))
            members, rest = rest[:size], rest[size:]
            name = f"{prefix[depth]}{k}"
            k += 1
            groups.append([name, members + [name]])
        levels.append(groups)
        current = [g[0] for g in groups]
    observed = list(leaves)
    if rng.random() < 0.4 and len(observed) > 2:
        observed.remove(rng.choice(observed))  # a never-observed member
    unknown_handling = rng.choice(["raise", "raise", "drop"])
    n_feat = rng.randint(min_features, max(min_features, min(max_features or 3, 3)))
    feats, lats = [], []
    for j in range(n_feat):
        weights = _zipf_weights(len(observed), rng)
        rng.shuffle(weights)
        vals, lat = [], []
        unknowns = []
        if unknown_handling == "drop" and rng.random() < 0.6:
            unknowns = rng.sample(["zz_unknown", "other_unknown"], rng.choice([1, 1, 2]))
        for _ in range(n):
            if unknowns and rng.random() < 0.06:
                vals.append(rng.choice(unknowns))
                lat.append(0.5)
                continue
            i = _windex(rng, weights)
            vals.append(observed[i])
            lat.append(leaves.index(observed[i]) / max(1, len(leaves) - 1))
        vals = _apply_nan(rng, vals, rng.choice([0.0, 0.0, 0.05, 0.2]))
        feats.append({"name": f"c{j}", "kind": "cat", "sub": "chained", "values": vals})
        lats.append(lat)
    target_kind = rng.choice(["binary", "continuous"])
    tspec = {"noise": 0.3, "slope": rng.choice([0.0, 2.0]), "bias": 0.0, "round": None, "classes": [0, 1, 2]}
    ys = _target(rng, target_kind, lats, n, tspec)
    index_kind = rng.choice(["range", "range", "offset", "shuffled", "str"])
    world = {
        "n": n,
        "index": _make_index(rng, n, index_kind),
        "features": feats,
        "target": target_kind,
        "y": ys,
        "dev": None,
        "sut": {
            "class": "ChainedDiscretizer",
            "params": {
                "min_freq": rng.choice([0.08, 0.1, 0.15, 0.2, 0.33]),
                "copy": rng.random() < 0.6,
                "n_jobs": rng.choice([1, 1, 2, 3]),
                "chained_orders": levels,
                "unknown_handling": unknown_handling,
            },
        },
    }
    return world


def generate_world(rng, tier="quick", force_class=None, min_features=1, max_features=None, want_dev=None):
    """Draws one literal world."""
    sut_class = force_class or weighted(rng, SUT_WEIGHTS)
    if sut_class == "ChainedDiscretizer":
        return _chained_world(rng, tier, min_features, max_features)
    n = int(round(math.exp(rng.uniform(math.log(30), math.log(300 if tier == "quick" else 400)))))
    if rng.random() < 0.08:
        n = rng.randint(12, 30)
    elif tier == "thorough" and rng.random() < 0.03:
        n = rng.randint(800, 2500)  # a few large samples (base buckets then hold ~min_freq of the rows)
    allowed = ALLOWED_KINDS[sut_class]
    max_f = max_features or (4 if tier == "quick" else 6)
    if tier == "thorough" and max_features is None and rng.random() < 0.05:
        max_f = 9
    n_feat = rng.randint(min_features, max(min_features, rng.choice([1, 2, 2, 3, 3, max_f])))
    feats = []
    specs = []
    for j in range(n_feat):
        kind = rng.choice(allowed)
        name_kind = kind
        if kind == "cat_str":
            kind, spec = "cat", _cat_spec(rng, str_only=True)
        elif kind == "cat_num":
            kind, spec = "cat", _cat_spec(rng, numeric_only=True)
        elif kind == "cat":
            spec = _cat_spec(rng)
        elif kind == "ord":
            # OrdinalDiscretizer on its own takes string values only (numbers go through the string
            # conversion step of QualitativeDiscretizer)
            spec = _ord_spec(rng, allow_numeric=sut_class != "OrdinalDiscretizer")
        else:
            spec = _quant_spec(rng)
        _ = name_kind
        spec["kind"] = kind
        spec["nan_rate"] = rng.choice([0.0, 0.0, 0.0, 0.04, 0.12, 0.35])
        spec["name"] = f"{kind[0]}{j}"
        specs.append(spec)

    def draw(nrows, nan_scale=1.0):
        cols, lats = {}, []
        for spec in specs:
            if spec["kind"] == "quant":
                vals, lat = _draw_quant(rng, nrows, spec)
            elif spec["kind"] == "cat":
                vals, lat = _draw_cat(rng, nrows, spec)
            else:
                vals, lat = _draw_ord(rng, nrows, spec)
            vals = _apply_nan(rng, vals, spec["nan_rate"] * nan_scale)
            cols[spec["name"]] = vals
            lats.append(lat)
        return cols, lats

    cols, lats = draw(n)
    target_kind = TARGET_OF.get(sut_class) or rng.choice(["binary", "binary", "continuous"])
    tspec = {
        "noise": rng.choice([0.05, 0.2, 0.5]),
        "slope": rng.choice([0.0, 1.0, 2.0, 3.0]),
        "bias": rng.choice([0.0, 0.0, -1.0, 1.5]),
        "round": rng.choice([None, None, 0, 1]),
        "classes": rng.choice([[0, 1, 2], [1, 2, 3, 4], ["a", "b", "c"], ["k0", "k1", "k2", "k3"]]),
    }
    # only some features carry signal
    used = [lat for lat in lats if rng.random() < 0.8]
    ys = _target(rng, target_kind, used, n, tspec)
    for spec in specs:
        feat = {"name": spec["name"], "kind": spec["kind"], "values": cols[spec["name"]]}
        if spec["kind"] == "quant":
            feat["dtype"] = spec["dtype"]
            feat["sub"] = spec["sub"]
        elif spec["kind"] == "cat":
            feat["sub"] = spec["sub"]
        else:
            feat["ranking"] = spec["ranking"]
            if spec.get("sub"):
                feat["sub"] = spec["sub"]
        if spec.get("col_dtype"):
            feat["col_dtype"] = spec["col_dtype"]
        feats.append(feat)
    index_kind = rng.choice(["range", "range", "offset", "shuffled", "str"])
    world = {
        "n": n,
        "index": _make_index(rng, n, index_kind),
        "features": feats,
        "target": target_kind,
        "y": ys,
        "dev": None,
    }
    if want_dev is None:
        want_dev = sut_class in CARVERS and rng.random() < 0.45
    if want_dev or rng.random() < 0.3:
        n_dev = max(12, int(n * rng.uniform(0.5, 1.0)))
        dcols, dlats = draw(n_dev)
        dused = [dl for dl, lat in zip(dlats, lats) if any(lat is u for u in used)]
        dys = _target(rng, target_kind, dused, n_dev, tspec)
        world["dev"] = {
            "index": _make_index(rng, n_dev, index_kind if index_kind != "range" else "offset"),
            "values": dcols,
            "y": dys,
            "use_in_fit": bool(want_dev),
        }
    # system under simulation and its tuning knobs
    params = {
        "min_freq": rng.choice([0.08, 0.1, 0.12, 0.15, 0.2, 0.25, 0.33, 0.5]),
        "copy": rng.random() < 0.6,
        "n_jobs": rng.choice([1, 1, 2, 3, 4]) if tier == "quick" else rng.choice([1, 1, 2, 3, 4, 6, 8]),
    }
    if tier == "thorough" and rng.random() < 0.05:
        params["min_freq"] = rng.choice([0.04, 0.05, 0.06])
    if sut_class in CARVERS:
        params.update(
            {
                "max_n_mod": rng.choice([2, 3, 3, 4, 5, 6]),
                "min_freq_mod": rng.choice([None, None, params["min_freq"], params["min_freq"] / 3]),
                "output_dtype": rng.choice(["float", "str"]),
                "dropna": rng.random() < 0.6,
            }
        )
        if params["min_freq"] < 0.08:
            params["max_n_mod"] = min(params["max_n_mod"], 3)
        if sut_class != "ContinuousCarver":
            params["sort_by"] = rng.choice(["tschuprowt", "cramerv"])
    if sut_class != "BaseDiscretizer" and rng.random() < 0.12:
        # user-chosen sentinels for missing values / rare values
        params["extra_kwargs"] = rng.choice(
            [{"str_nan": "MISSING"}, {"str_default": "RARE"}, {"str_nan": "MISSING", "str_default": "RARE"}]
        )
    if sut_class == "BaseDiscretizer":
        params.update(_hand_built_orders(rng, world))
        params["output_dtype"] = rng.choice(["float", "str"])
        params["dropna"] = rng.random() < 0.6
    world["sut"] = {"class": sut_class, "params": params}
    return world


def _hand_built_orders(rng, world):
    """values_orders a user could hand to BaseDiscretizer directly (the path load_discretizer takes):
    groups of observed values, quantitative bounds possibly listed out of order."""
    orders, dtypes = {}, {}
    for feat in world["features"]:
        observed = []
        seen = set()
        for v in feat["values"]:
            if v is not None and repr(v) not in seen:
                seen.add(repr(v))
                observed.append(v)
        has_nan = any(v is None for v in feat["values"])
        groups = []
        if feat["kind"] == "quant":
            dtypes[feat["name"]] = "float"
            distinct = sorted({float(v) for v in observed})
            k = min(len(distinct), rng.randint(0, 5))
            bounds = sorted(rng.sample(distinct, k)) if k else []
            bounds = [b for b in bounds if b != float("inf")]
            groups = [[b, [b]] for b in bounds] + [[float("inf"), [float("inf")]]]
            # merging two adjacent bounds: the group is led by its larger bound
            if len(groups) > 2 and rng.random() < 0.3:
                i = rng.randrange(len(groups) - 1)
                groups[i + 1][1] = groups[i][1] + groups[i + 1][1]
                del groups[i]
            # bounds listed out of order: transform is "first group whose bound is >= the value"
            if len(groups) > 2 and rng.random() < 0.3:
                rng.shuffle(groups)
        else:
            dtypes[feat["name"]] = "str"
            values = list(observed)
            if feat["kind"] == "ord":
                values = [v for v in feat.get("ranking", []) if v in observed] + [v for v in observed if v not in feat.get("ranking", [])]
            rng.shuffle(values)
            while values:
                size = min(len(values), rng.choice([1, 1, 2, 3]))
                members, values = values[:size], values[size:]
                if any(not isinstance(m, str) for m in members):
                    # numeric-looking categories are grouped under a string form, as StringDiscretizer does
                    first = members[0]
                    text = str(int(first)) if isinstance(first, float) and first.is_integer() else str(first)
                    if text in members:
                        members.remove(text)
                    leader = text
                    members = members + [leader]
                else:
                    leader = members[-1]
                groups.append([leader, members])
            # a value must not appear in two groups (a number's string form may already be a member)
            flat = set()
            clean = []
            for leader, members in groups:
                members = [m for m in members if repr(m) not in flat or m == leader]
                if repr(leader) in flat:
                    continue
                for m in members:
                    flat.add(repr(m))
                clean.append([leader, members])
            groups = clean
            if rng.random() < 0.4 and groups:
                i = rng.randrange(len(groups))
                if rng.random() < 0.5:
                    groups[i][1] = ["__OTHER__"] + groups[i][1]
                else:
                    groups.insert(i, ["__OTHER__", ["__OTHER__"]])
        if has_nan or rng.random() < 0.15:
            choice = rng.random()
            if choice < 0.5 or not groups:
                groups.append(["__NAN__", ["__NAN__"]])  # own modality, last as the library keeps it
            elif choice < 0.85:
                i = rng.randrange(len(groups))
                groups[i][1] = ["__NAN__"] + groups[i][1]
        orders[feat["name"]] = groups
    return {"given_orders": orders, "input_dtypes": dtypes}


# --------------------------------------------------------------------------------------
# building real objects from a literal world


def _column(feat, values):
    import numpy as np  # pylint: disable=C0415
    import pandas as pd  # pylint: disable=C0415

    if feat["kind"] == "quant":
        if feat.get("dtype") == "int" and all(v is not None for v in values):
            return pd.Series(values, dtype="int64")
        dtype = "float32" if feat.get("dtype") == "float32" else "float64"
        return pd.Series([np.nan if v is None else v for v in values], dtype=dtype)
    col_dtype = feat.get("col_dtype")
    if col_dtype == "int64" and all(v is not None for v in values):
        return pd.Series(values, dtype="int64")
    if col_dtype in ("int64", "float64"):
        return pd.Series([np.nan if v is None else float(v) for v in values], dtype="float64")
    return pd.Series([np.nan if v is None else v for v in values], dtype="object")


def build_frame(world, which="train"):
    """(X, y) as pandas objects for 'train' or 'dev'."""
    import pandas as pd  # pylint: disable=C0415

    if which == "train":
        index = world["index"]
        cols = {f["name"]: f["values"] for f in world["features"]}
        ys = world["y"]
    else:
        dev = world["dev"]
        index, cols, ys = dev["index"], dev["values"], dev["y"]
    data = {}
    for feat in world["features"]:
        ser = _column(feat, cols[feat["name"]])
        data[feat["name"]] = ser.values
    # a default-looking index is a true RangeIndex, as it is for most users
    if index and all(isinstance(i, int) for i in index) and index == list(range(index[0], index[0] + len(index))):
        pd_index = pd.RangeIndex(index[0], index[0] + len(index))
    else:
        pd_index = pd.Index(index)
    frame = pd.DataFrame(data, index=pd_index)
    # column order is a property of the world
    order = world.get("column_order")
    if order:
        frame = frame[[c for c in order if c in frame.columns]]
    target = pd.Series(ys, index=pd_index, name="target")
    return frame, target


def feature_lists(world, listing_perm=None):
    quant = [f["name"] for f in world["features"] if f["kind"] == "quant"]
    cat = [f["name"] for f in world["features"] if f["kind"] == "cat"]
    ordi = [f["name"] for f in world["features"] if f["kind"] == "ord"]
    if listing_perm is not None:
        quant = listing_perm(quant)
        cat = listing_perm(cat)
        ordi = listing_perm(ordi)
    orders = {f["name"]: list(f["ranking"]) for f in world["features"] if f["kind"] == "ord"}
    return quant, cat, ordi, orders


def build_sut(world, listing_perm=None, overrides=None, only=None):
    """Instantiates the system under simulation described by the world."""
    from AutoCarver import BinaryCarver, ContinuousCarver, MulticlassCarver  # pylint: disable=C0415
    from AutoCarver.discretizers import (  # pylint: disable=C0415
        CategoricalDiscretizer,
        ContinuousDiscretizer,
        Discretizer,
        OrdinalDiscretizer,
        QualitativeDiscretizer,
        QuantitativeDiscretizer,
        StringDiscretizer,
    )

    cls = world["sut"]["class"]
    params = dict(world["sut"]["params"])
    params.update(overrides or {})
    quant, cat, ordi, orders = feature_lists(world, listing_perm)
    if only is not None:
        quant = [f for f in quant if f in only]
        cat = [f for f in cat if f in only]
        ordi = [f for f in ordi if f in only]
        orders = {k: v for k, v in orders.items() if k in only}
    extra = dict(params.get("extra_kwargs", {}))
    common = {"copy": params["copy"], "n_jobs": params["n_jobs"]}
    if cls in CARVERS:
        kwargs = dict(
            min_freq=params["min_freq"],
            quantitative_features=quant,
            qualitative_features=cat,
            ordinal_features=ordi,
            values_orders=orders,
            max_n_mod=params["max_n_mod"],
            min_freq_mod=params["min_freq_mod"],
            output_dtype=params["output_dtype"],
            dropna=params["dropna"],
            verbose=False,
            **common,
            **extra,
        )
        if cls == "BinaryCarver":
            return BinaryCarver(sort_by=params["sort_by"], **kwargs)
        if cls == "MulticlassCarver":
            return MulticlassCarver(sort_by=params["sort_by"], **kwargs)
        if "sort_by" in params:
            kwargs["sort_by"] = params["sort_by"]
        return ContinuousCarver(**kwargs)
    if cls != "BaseDiscretizer":
        common = dict(common, **extra)
    if cls == "Discretizer":
        return Discretizer(
            quantitative_features=quant,
            qualitative_features=cat,
            min_freq=params["min_freq"],
            ordinal_features=ordi,
            values_orders=orders,
            **common,
        )
    if cls == "QuantitativeDiscretizer":
        return QuantitativeDiscretizer(quantitative_features=quant, min_freq=params["min_freq"], **common)
    if cls == "QualitativeDiscretizer":
        return QualitativeDiscretizer(
            qualitative_features=cat,
            min_freq=params["min_freq"],
            ordinal_features=ordi,
            values_orders=orders,
            **common,
        )
    if cls == "ContinuousDiscretizer":
        return ContinuousDiscretizer(quantitative_features=quant, min_freq=params["min_freq"], **common)
    if cls == "CategoricalDiscretizer":
        return CategoricalDiscretizer(qualitative_features=cat, min_freq=params["min_freq"], **common)
    if cls == "OrdinalDiscretizer":
        return OrdinalDiscretizer(
            ordinal_features=ordi, min_freq=params["min_freq"], values_orders=orders, **common
        )
    if cls == "StringDiscretizer":
        return StringDiscretizer(qualitative_features=cat, **common)
    if cls == "ChainedDiscretizer":
        from AutoCarver.discretizers import ChainedDiscretizer  # pylint: disable=C0415

        return ChainedDiscretizer(
            qualitative_features=cat,
            min_freq=params["min_freq"],
            chained_orders=[
                {name: list(members) for name, members in level} for level in params["chained_orders"]
            ],
            unknown_handling=params["unknown_handling"],
            **common,
        )
    if cls == "BaseDiscretizer":
        from AutoCarver.discretizers import BaseDiscretizer, GroupedList  # pylint: disable=C0415

        names = quant + cat + ordi
        return BaseDiscretizer(
            features=names,
            values_orders={
                name: GroupedList({leader: list(members) for leader, members in params["given_orders"][name]})
                for name in names
            },
            input_dtypes={name: params["input_dtypes"][name] for name in names},
            output_dtype=params["output_dtype"],
            dropna=params["dropna"],
            str_nan="__NAN__",
            str_default="__OTHER__",
            verbose=False,
            **common,
        )
    raise ValueError(cls)


def fit_kwargs(world, x_dev, y_dev):
    if world["sut"]["class"] in CARVERS and world.get("dev") and world["dev"].get("use_in_fit"):
        return {"X_dev": x_dev, "y_dev": y_dev}
    return {}


def is_carver(world):
    return world["sut"]["class"] in CARVERS


DEFAULT_CLASSES = CARVERS + ("Discretizer", "QualitativeDiscretizer", "CategoricalDiscretizer", "BaseDiscretizer")


def expected_sentinels(world):
    """The sentinels the user asked for (the oracle reads them from the world, not from the object)."""
    extra = world["sut"]["params"].get("extra_kwargs", {})
    str_nan = extra.get("str_nan", "__NAN__")
    str_default = extra.get("str_default", "__OTHER__") if world["sut"]["class"] in DEFAULT_CLASSES else None
    return str_nan, str_default
