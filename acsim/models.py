"""DiscretizerModel: a plain executable reading of ``values_orders`` (oracle of C04, C05, C17).

Extracted from a live object's *data attributes only*; edits are applied by the model's own rules.
"""
from __future__ import annotations

import math

from .glsim import same, vkey


def is_nan(x) -> bool:
    if x is None:
        return True
    try:
        return isinstance(x, float) and math.isnan(x) or (hasattr(x, "dtype") and x != x)  # noqa: PLR0124
    except (TypeError, ValueError):
        return False


def py(v):
    """numpy scalar -> python scalar."""
    if hasattr(v, "item") and not isinstance(v, (str, bytes)):
        try:
            return v.item()
        except (ValueError, AttributeError):
            return v
    if isinstance(v, str):
        return str(v)
    return v


def label_equal(got, expected) -> bool:
    """Loose equality of labels: numbers by value, strings by text, NaN equals NaN."""
    got, expected = py(got), py(expected)
    if is_nan(got) or is_nan(expected):
        return is_nan(got) and is_nan(expected)
    if isinstance(got, str) != isinstance(expected, str):
        return False
    return got == expected


class ModelInvalid(Exception):
    """values_orders is not a well-formed ordered partition (reported under C04)."""


REJECT = "reject"


class DModel:
    """Executable reference reading of a fitted discretizer."""

    def __init__(self, obj, sentinels=None):
        # the sentinels are the ones the user asked for when known (an object that forgot or mixed
        # them up must not be believed)
        self.str_nan = sentinels[0] if sentinels else obj.str_nan
        self.str_default = sentinels[1] if sentinels else obj.str_default
        self.output_dtype = obj.output_dtype
        self.features = [str(f) for f in obj.features]
        self.kind = {}
        for feat in self.features:
            if feat in obj.quantitative_features:
                self.kind[feat] = "quant"
            elif feat in obj.qualitative_features:
                self.kind[feat] = "qual"
            else:
                raise ModelInvalid(f"feature {feat} is neither quantitative nor qualitative")
        self.dropna = {str(f): bool(v) for f, v in obj.features_dropna.items()}
        self.casting = {str(raw): [str(c) for c in cast] for raw, cast in obj.features_casting.items()}
        self.groups: dict[str, list] = {}
        for feat in self.features:
            if feat not in obj.values_orders:
                raise ModelInvalid(f"no values_orders for kept feature {feat}")
            order = obj.values_orders[feat]
            leaders = [py(v) for v in list(order)]
            content = {vkey(py(k)): [py(m) for m in ms] for k, ms in order.content.items()}
            if len(content) != len(order.content):
                raise ModelInvalid(f"{feat}: content keys collide")
            if len(content) != len(leaders) or any(vkey(lead) not in content for lead in leaders):
                raise ModelInvalid(
                    f"{feat}: leaders {leaders!r} differ from content keys {list(order.content)!r}"
                )
            self.groups[feat] = [[lead, list(content[vkey(lead)])] for lead in leaders]
        # labels of quantitative 'str' outputs are whatever the object gives, of which the model only
        # demands that it is a function of the group and injective over groups
        self.given_labels = {
            feat: {vkey(py(k)): py(v) for k, v in obj.labels_per_values.get(feat, {}).items()}
            for feat in self.features
        }
        self.validate()

    # -- structure -----------------------------------------------------------------
    def validate(self):
        for feat, groups in self.groups.items():
            seen: dict[str, object] = {}
            leaders = [g[0] for g in groups]
            for i, a in enumerate(leaders):
                for b in leaders[i + 1 :]:
                    if same(a, b):
                        raise ModelInvalid(f"{feat}: leader {a!r} listed twice")
            for lead, members in groups:
                if not any(same(lead, m) for m in members):
                    raise ModelInvalid(f"{feat}: leader {lead!r} not in its group {members!r}")
                for m in members:
                    if vkey(m) in seen:
                        raise ModelInvalid(f"{feat}: value {m!r} in two groups")
                    seen[vkey(m)] = lead

    def raw_of(self, feat):
        for raw, cast in self.casting.items():
            if feat in cast:
                return raw
        return feat

    def leaders(self, feat):
        return [g[0] for g in self.groups[feat]]

    def members(self, feat, leader):
        for lead, members in self.groups[feat]:
            if same(lead, leader):
                return members
        return None

    def group_of(self, feat, value):
        """Leader of the group containing value (python equality, str/non-str apart)."""
        for lead, members in self.groups[feat]:
            if any(same(value, m) for m in members):
                return lead
        return None

    def all_values(self, feat):
        return [m for _, ms in self.groups[feat] for m in ms]

    def nan_group(self, feat):
        return self.group_of(feat, self.str_nan)

    # -- labels --------------------------------------------------------------------
    def label_of_group(self, feat, leader):
        """Label transform gives to rows of the group led by ``leader`` (before NaN reinstatement)."""
        leaders = self.leaders(feat)
        if self.output_dtype == "float":
            return [i for i, lead in enumerate(leaders) if same(lead, leader)][0]
        if self.kind[feat] == "qual":
            return leader
        given = self.given_labels[feat]
        return given.get(vkey(leader), ("missing-label", leader))

    def final_label(self, feat, leader):
        """Label after the reinstatement of missing values (dropna=False)."""
        label = self.label_of_group(feat, leader)
        if not self.dropna.get(feat, True):
            nan_lead = self.nan_group(feat)
            if nan_lead is not None and label_equal(label, self.label_of_group(feat, nan_lead)):
                return float("nan")
        return label

    def label_set(self, feat):
        return [self.final_label(feat, lead) for lead in self.leaders(feat)]

    def check_injective(self, feat):
        """Distinct groups must receive distinct labels."""
        labels = [self.label_of_group(feat, lead) for lead in self.leaders(feat)]
        for i, a in enumerate(labels):
            for j in range(i + 1, len(labels)):
                if label_equal(a, labels[j]):
                    return (self.leaders(feat)[i], self.leaders(feat)[j], a)
        return None

    # -- prediction ----------------------------------------------------------------
    def predict(self, feat, value):
        """Expected output cell for one input cell: a label, NaN, or (REJECT, reason)."""
        value = py(value)
        if self.kind[feat] == "quant":
            if is_nan(value):
                lead = self.nan_group(feat)
                if lead is None:
                    return (REJECT, "unexpected missing value")
                return self.final_label(feat, lead)
            if isinstance(value, str):
                return (REJECT, "string in quantitative feature")
            for lead in self.leaders(feat):
                if isinstance(lead, str):
                    continue  # the missing-value sentinel is not an interval bound
                if value <= lead:
                    return self.final_label(feat, lead)
            return ("leak", value)
        # qualitative
        if is_nan(value):
            value = self.str_nan
        lead = self.group_of(feat, value)
        if lead is None:
            if same(value, self.str_nan) if isinstance(value, str) else False:
                return (REJECT, "unexpected missing value")
            default_lead = self.group_of(feat, self.str_default) if self.str_default else None
            if default_lead is None:
                return (REJECT, "unexpected value")
            lead = default_lead
        return self.final_label(feat, lead)

    def predict_frame(self, frame):
        """Per fitted column the expected cells, or the set of offending features of a rejection."""
        expected, offending = {}, {}
        for feat in self.features:
            raw = self.raw_of(feat)
            cells = [self.predict(feat, v) for v in frame[raw].tolist()]
            rejects = [c for c in cells if isinstance(c, tuple) and c[0] == REJECT]
            if rejects:
                offending[feat] = rejects[0][1]
            expected[feat] = cells
        return expected, offending

    # -- edits (the model's own rules) ---------------------------------------------
    def edit_group(self, feat, discarded, kept):
        """members(kept) := members(discarded) + members(kept); discarded's entry disappears."""
        if same(discarded, kept):
            return
        groups = self.groups[feat]
        d_members = self.members(feat, discarded)
        if d_members is None:  # a value not known yet (missing-value sentinel of a feature without NaN)
            d_members = [discarded]
        k_members = self.members(feat, kept)
        k_members[:0] = d_members
        self.groups[feat] = [g for g in groups if not same(g[0], discarded)]
        # a group of quantiles is led by its largest quantile (the interval's upper bound)
        if (
            self.kind[feat] == "quant"
            and not isinstance(discarded, str)
            and not isinstance(kept, str)
            and discarded > kept
        ):
            for g in self.groups[feat]:
                if same(g[0], kept):
                    g[0] = discarded

    def edit_rename(self, feat, leader, new_name):
        for g in self.groups[feat]:
            if same(g[0], leader):
                g[0] = new_name
                g[1] = [new_name] + g[1]

    def snapshot(self):
        return {
            feat: [[vkey(lead), sorted(vkey(m) for m in ms)] for lead, ms in groups]
            for feat, groups in self.groups.items()
        }
