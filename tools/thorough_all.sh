#!/bin/bash
# Runs the thorough tier of every claimed property (evidence/replays to a scratch dir) and prints a
# one-line summary each; used in the background to validate the thorough tier end to end.
here=$(cd "$(dirname "$0")/.." && pwd)
scratch=$(mktemp -d /tmp/thorough_XXXX)
for p in ${1:-C13 C10 C06 C07 C17 C19 C04 C05}; do
  start=$(date +%s)
  out=$(VERIF_EVIDENCE_DIR=$scratch VERIF_REPLAY_OUT=$scratch/replays VERIF_BUDGET_S=${VERIF_BUDGET_S:-1500} /venv/bin/python $here/check.py $p --tier thorough 2>&1)
  rc=$?
  echo "$p rc=$rc $(( $(date +%s) - start ))s $(echo "$out" | tail -1)"
  [ $rc -ne 0 ] && echo "$out" | grep -E "violation oracle|VIOLATION|HARNESS" | cut -c1-600
  python3 -c "
import json; c=json.load(open('$scratch/$p.json'))['coverage']
print('   evaluations', c['evaluations'], 'distinct_nontrivial', c['distinct_nontrivial'], 'truncated', c['truncated_by_wall_budget'], 'runs/h', c['simulated_runs_per_hour'])
for k in ('stub_cross_check','real_hash_seed_runs','cross_process_restarts'):
    if k in c: print('   ', k, json.dumps(c[k])[:300])
" 2>/dev/null
done
echo "scratch=$scratch"
