#!/bin/bash
# every behaviour-preserving refactoring of /verif/benign against every check (must all be clean)
cd "$(dirname "$0")/.." || exit 2
bad=0
for f in benign/*.diff; do
  d=/tmp/benign_run_$(basename $f .diff); mkdir -p $d; cp $f $d/patch.diff
  tools/check_benign.sh $d/patch.diff || bad=1
  rm -rf $d
done
echo "benign_all exit=$bad"
exit $bad
