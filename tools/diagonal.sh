#!/bin/bash
# Re-runs every seeded change and self-made mutant against the quick check of the property it was
# written against (full quick plan) and prints caught / MISSED; the two seeds documented as
# "MISSED and NOT addressed" are expected to stay missed.
cd "$(dirname "$0")/.." || exit 2
for d in seeded/*/; do
  id=$(basename $d); prop=${id%%-*}
  out=$(tools/run_against.sh $d/patch.diff $prop quick 2>&1)
  rc=$(echo "$out" | grep -o 'exit=[0-9]*' | tail -1 | cut -d= -f2)
  case "$rc" in 1) echo "caught  $id";; 0) echo "MISSED  $id";; *) echo "ERROR($rc) $id";; esac
done
while IFS=$'\t' read -r name prop; do
  out=$(tools/run_against.sh mutants/$name.patch $prop quick 2>&1)
  rc=$(echo "$out" | grep -o 'exit=[0-9]*' | tail -1 | cut -d= -f2)
  case "$rc" in 1) echo "caught  mutant:$name";; 0) echo "MISSED  mutant:$name";; *) echo "ERROR($rc) mutant:$name";; esac
done < mutants/INDEX.tsv
