#!/usr/bin/env python3
"""Writes /verif/MANIFEST.json (single source of truth for the interface) and validates it."""
import json
import os
import sys

HERE = os.path.dirname(os.path.dirname(os.path.abspath(__file__)))
PY = "/venv/bin/python"

CLAIMS = {
    "C13": dict(
        engine="glsim",
        category="exploration",
        design_ref="DESIGN.md §4.1",
        technique="deterministic simulation: seeded operation histories on aliased GroupedLists checked step by step against an ordered leader->members reference model; ddmin-minimised replay files",
        text="Seeded search over histories of valid GroupedList operations (several live, aliased lists; falsy and sentinel values); after every operation every structural invariant and every lookup over the whole universe is compared with a plain reference model. Sampled, not exhaustive: a clean batch is evidence over the histories run.",
        note="Trusted: the reference model GLModel (~80 lines), numpy.sort/pandas.isna as used by GroupedList, Python equality on the 13-value universe. Only operations valid per the model are issued.",
    ),
    "C10": dict(
        engine="pairsim",
        category="exploration",
        design_ref="DESIGN.md §4.2",
        technique="deterministic simulation: paired share-nothing worlds (reference schedule vs seeded set-iteration/listing/column permutation x simulated worker-pool schedule with pickle isolation x co-fitted subset), each in its own forked child; per-feature equality of fitted orders and outputs; plus whole reference runs under several real PYTHONHASHSEED values (replayable)",
        text="Seeded search over feature-order permutations and pool interleavings (start/completion order, snapshot instant, at most n in flight) against a reference world with the identity schedule and n_jobs=1; worker-raised rejections must come back as the same AssertionError. Sampled schedules, not all.",
        note="Trusted: SimPool's model of multiprocessing.Pool (pickle boundary, atomic task bodies, feasible completion orders), SimSet as the only hash-seed dependent iteration the code performs on feature names; canonical comparison of GroupedLists and frames.",
    ),
    "C06": dict(
        engine="session",
        category="exploration",
        design_ref="DESIGN.md §4.3",
        technique="deterministic simulation with restart faults: sessions on a fitted object saved to an in-memory disk and rebuilt by the real loader at seeded points (chains of generations, restarts of edited objects); never-restarted shadow object as oracle; JSON of every generation compared as JSON values; a sample of restarts across a real process boundary under another hash seed (replayable mode xproc)",
        text="Restart (save/drop/reload) injected at arbitrary points of seeded histories of transforms on seen/unseen/empty frames, summaries and manual edits; the reloaded object must behave like the shadow (same output, same rejection, same summary) and re-serialise to the same JSON. Sampled histories and worlds.",
        note="Trusted: standard json module as the persistence medium (no file system in the library), pickle clone for the shadow, canonical frame comparison (values and NaN positions, numbers by value).",
    ),
    "C07": dict(
        engine="session",
        category="exploration",
        design_ref="DESIGN.md §4.4",
        technique="deterministic simulation: interleaved transform histories (subsets, permutations, relabelings, repeats, extra columns) under a simulated pool; state digests, input snapshots, fit_transform twin, end-of-history re-transform check",
        text="Seeded call histories on one fitted object: every transformed row is compared with the label that row received in the first full transform, the fitted-state digest is compared before/after every transform, outputs keep index/columns/non-feature columns, copy=True inputs are compared with deep snapshots, fit_transform twin equals fit+transform.",
        note="Trusted: canonical comparison of frames (numbers by value), state digest over data attributes; in-place transform with copy=False is documented and only checked on the returned frame.",
    ),
    "C17": dict(
        engine="session",
        category="exploration",
        design_ref="DESIGN.md §4.5",
        technique="deterministic simulation: seeded edit histories through update_discretizer (with restarts in between) checked after every edit against the DiscretizerModel reference (partition merge, values_orders, labels, summary, JSON round trip)",
        text="Sequences of valid edits (adjacent groups of ordered features in both directions, any two groups of categorical features, missing values into a group, renames) interleaved with transforms and save/reload; after every accepted edit the partition of rows, values_orders, summary and the JSON-rebuilt object are compared with a plain model. Sampled histories.",
        note="Trusted: DiscretizerModel (reads only data attributes; edits applied by its own rules; a group of quantiles is led by its largest quantile); labels of quantitative 'str' outputs are read from the object and only required to be injective.",
    ),
    "C19": dict(
        engine="session",
        category="fault_enumeration",
        design_ref="DESIGN.md §4.6",
        technique="deterministic simulation with enumerated fault classes: every listed malformed-input class x every class it is meaningful for x {fresh, fitted object} in every batch, at seeded positions/worlds/schedules, restarts in between; atomicity of the fitted object checked by state digest, JSON export and transforms before/after",
        text="The product fault class x system class x phase is enumerated completely in every batch (12 fault classes, 10 classes, 2 phases); each malformed call must raise AssertionError and leave a fitted object's values_orders, JSON export and transform of three recorded frames unchanged, and a following valid transform must succeed. Worlds and positions are sampled.",
        note="Trusted: the mutators of acsim/c19.py as representatives of each fault class; target faults are not demanded of the two unsupervised discretizers whose fit ignores y; a value absent from a ranking is not demanded to be refused for a feature documented as not discretized (largest modality rarer than min_freq).",
    ),
    "C04": dict(
        engine="session",
        category="exploration",
        design_ref="DESIGN.md §4.7",
        technique="deterministic simulation (workload invariant): transform == DiscretizerModel(values_orders) asserted at every step at which the fitted state is new (after fit, restart, edit) in seeded sessions with restart faults and a simulated pool",
        text="Weakest kind of claim here: an invariant of fitted state evaluated at every simulated step (states only histories reach: rebuilt from JSON, edited, reloaded-then-edited; pooled transform path). Reach over inputs is exactly the swarm world generator's.",
        note="Trusted: DiscretizerModel.predict (first interval with value <= leader; group membership by Python equality; float labels = rank; 'str' quantitative labels read from the object, injectivity demanded).",
    ),
    "C05": dict(
        engine="session",
        category="exploration",
        design_ref="DESIGN.md §4.8",
        technique="deterministic simulation (workload invariant) with unseen-data faults: frames with injected unseen categories / missing values / out-of-range, extreme and infinite numbers / equal values of another type / empty and single-row frames, on fitted and reloaded objects; accept-or-reject and closed label set predicted by the DiscretizerModel",
        text="Every transform of a frame carrying injected unseen data is compared with the model: predicted reject => AssertionError naming an offending feature; predicted accept => only fitted labels (closed set), unseen categories in the default group, any number in its interval; any other exception is a violation. Sampled worlds and injections.",
        note="Trusted: DiscretizerModel; injected tokens are clearly novel; NaN of a qualitative feature never falls into the default group (the code exempts the missing-value sentinel).",
    ),
}

PENDING = {}

NOT_APPLICABLE = {
    "C01": "pure function of (X, y, dev, params): optimality needs an exhaustive per-instance re-enumeration oracle over inputs/configurations; no schedule, history, restart or fault in the statement (DESIGN.md §5)",
    "C02": "postcondition of one fit over inputs/configurations; nothing for a schedule or fault to act on (DESIGN.md §5)",
    "C03": "pure function of the fitted orders and a real number (contiguity/monotonicity); input generation only (DESIGN.md §5)",
    "C08": "quantified over input shapes of one fit call; reaching them is input generation, not simulation (DESIGN.md §5)",
    "C09": "pure function of one column and min_freq (DESIGN.md §5)",
    "C11": "metamorphic relation between two deterministic fits on re-encoded inputs; row order is not a delivery order the code can observe (DESIGN.md §5)",
    "C12": "differential test against independently fitted BinaryCarvers; per-class sub-fits run in one fixed order in one thread (DESIGN.md §5)",
    "C14": "recomputation oracle over inputs for the selectors; no schedule/fault/history in the statement (DESIGN.md §5)",
    "C15": "metamorphic relation over inputs for the selectors (DESIGN.md §5)",
    "C16": "postcondition of fit (summary/history truthful); its summary half is exercised as an oracle of C17/C06 (DESIGN.md §5)",
    "C18": "pure function of (hierarchy, column, min_freq, unknown_handling) (DESIGN.md §5)",
}


def main():
    checks = []
    for pid in sorted(CLAIMS):
        c = CLAIMS[pid]
        checks.append(
            {
                "property_id": pid,
                "quick_cmd": f"timeout 1500 {PY} /verif/check.py {pid} --tier quick",
                "thorough_cmd": f"timeout 7200 {PY} /verif/check.py {pid} --tier thorough",
                "evidence_file": f"/verif/evidence/{pid}.json",
                "replay_cmd_template": f"{PY} /verif/check.py {pid} --replay {{path}}",
                "engine": c["engine"],
                "level_claimed": {"category": c["category"], "text": c["text"], "design_ref": c["design_ref"]},
                "level_note": c["note"],
                "technique": c["technique"],
            }
        )
    engines = {}
    for pid, c in CLAIMS.items():
        engines.setdefault(c["engine"], []).append(pid)
    manifest = {
        "version": 1,
        "setup_cmd": f"{PY} /verif/tools/setup_check.py",
        "hooks": {
            "guard": "AUTOCARVER_VERIF",
            "enable": "no source hook is needed: the seams (set iteration order, multiprocessing.Pool) are module-level names of AutoCarver rebound from /verif at run time (acsim/seams.py); AUTOCARVER_VERIF is declared but unused",
            "baseline_off_cmd": "cd /repo && /venv/bin/python -m pytest -ra -q -p no:cacheprovider --timeout=900 --continue-on-collection-errors",
            "source_commits": [],
            "add_only": True,
        },
        "engines": [
            {
                "name": name,
                "path": f"/verif/acsim/{name}.py",
                "serves_properties": sorted(pids),
                "kind_free_text": "deterministic simulation with fault injection (seeded scheduler, in-process stubs for pool/set-order/disk, reference-model oracles)",
            }
            for name, pids in sorted(engines.items())
        ],
        "checks": checks,
        "not_applicable": [
            {"property_id": pid, "reason": reason}
            for pid, reason in sorted({**NOT_APPLICABLE, **PENDING}.items())
        ],
        "notes": "Every session run and every world of a pair executes in a forked child (share-nothing); replay files carry the literal world, the operation list, the explicit schedule decision list and the PYTHONHASHSEED of the run. All checks: /venv/bin/python /verif/check.py <id> --tier quick|thorough; exit 0 held / 1 VIOLATION with reproduced replay / 2 harness error. AUTOCARVER_SRC (default /repo) selects the tree under test. Known findings: /verif/known_findings.json.",
    }
    path = os.path.join(HERE, "MANIFEST.json")
    with open(path, "w", encoding="utf-8") as fobj:
        json.dump(manifest, fobj, indent=1)
    try:
        import jsonschema

        jsonschema.validate(manifest, json.load(open("/root/.vp/MANIFEST.schema.json")))
        print("MANIFEST.json valid;", len(checks), "checks,", len(manifest["not_applicable"]), "not applicable")
    except ImportError:
        print("MANIFEST.json written (jsonschema not importable here, not validated)")
    all_ids = {json.loads(l)["id"] for l in open(os.path.join(HERE, "properties.jsonl"))}
    covered = set(CLAIMS) | set(NOT_APPLICABLE) | set(PENDING)
    assert all_ids == covered, (all_ids - covered, covered - all_ids)


if __name__ == "__main__":
    sys.exit(main())
