#!/usr/bin/env python3
"""Writes /verif/MANIFEST.json (single source of truth for the interface) and validates it."""
import json
import os
import sys

HERE = os.path.dirname(os.path.dirname(os.path.abspath(__file__)))
PY = "/venv/bin/python"

CLAIMS = {
    "C13": dict(
        engine="glsim",
        category="exploration",
        design_ref="DESIGN.md §4.1",
        technique="deterministic simulation: seeded operation histories on aliased GroupedLists checked step by step against an ordered leader->members reference model; ddmin-minimised replay files",
        text="Seeded search over histories of valid GroupedList operations (several live, aliased lists; falsy and sentinel values); after every operation every structural invariant and every lookup over the whole universe is compared with a plain reference model. Sampled, not exhaustive: a clean batch is evidence over the histories run.",
        note="Trusted: the reference model GLModel (~80 lines), numpy.sort/pandas.isna as used by GroupedList, Python equality on the 13-value universe. Only operations valid per the model are issued.",
    ),
}

PENDING = {
    pid: "not claimed yet: its simulation check (DESIGN.md §4) is being built in this session and is not registered until it runs clean"
    for pid in ("C04", "C05", "C06", "C07", "C10", "C17", "C19")
}

NOT_APPLICABLE = {
    "C01": "pure function of (X, y, dev, params): optimality needs an exhaustive per-instance re-enumeration oracle over inputs/configurations; no schedule, history, restart or fault in the statement (DESIGN.md §5)",
    "C02": "postcondition of one fit over inputs/configurations; nothing for a schedule or fault to act on (DESIGN.md §5)",
    "C03": "pure function of the fitted orders and a real number (contiguity/monotonicity); input generation only (DESIGN.md §5)",
    "C08": "quantified over input shapes of one fit call; reaching them is input generation, not simulation (DESIGN.md §5)",
    "C09": "pure function of one column and min_freq (DESIGN.md §5)",
    "C11": "metamorphic relation between two deterministic fits on re-encoded inputs; row order is not a delivery order the code can observe (DESIGN.md §5)",
    "C12": "differential test against independently fitted BinaryCarvers; per-class sub-fits run in one fixed order in one thread (DESIGN.md §5)",
    "C14": "recomputation oracle over inputs for the selectors; no schedule/fault/history in the statement (DESIGN.md §5)",
    "C15": "metamorphic relation over inputs for the selectors (DESIGN.md §5)",
    "C16": "postcondition of fit (summary/history truthful); its summary half is exercised as an oracle of C17/C06 (DESIGN.md §5)",
    "C18": "pure function of (hierarchy, column, min_freq, unknown_handling) (DESIGN.md §5)",
}


def main():
    checks = []
    for pid in sorted(CLAIMS):
        c = CLAIMS[pid]
        checks.append(
            {
                "property_id": pid,
                "quick_cmd": f"timeout 1500 {PY} /verif/check.py {pid} --tier quick",
                "thorough_cmd": f"timeout 7200 {PY} /verif/check.py {pid} --tier thorough",
                "evidence_file": f"/verif/evidence/{pid}.json",
                "replay_cmd_template": f"{PY} /verif/check.py {pid} --replay {{path}}",
                "engine": c["engine"],
                "level_claimed": {"category": c["category"], "text": c["text"], "design_ref": c["design_ref"]},
                "level_note": c["note"],
                "technique": c["technique"],
            }
        )
    engines = {}
    for pid, c in CLAIMS.items():
        engines.setdefault(c["engine"], []).append(pid)
    manifest = {
        "version": 1,
        "setup_cmd": f"{PY} /verif/tools/setup_check.py",
        "hooks": {
            "guard": "AUTOCARVER_VERIF",
            "enable": "no source hook is needed: the seams (set iteration order, multiprocessing.Pool) are module-level names of AutoCarver rebound from /verif at run time (acsim/seams.py); AUTOCARVER_VERIF is declared but unused",
            "baseline_off_cmd": "cd /repo && /venv/bin/python -m pytest -ra -q -p no:cacheprovider --timeout=900 --continue-on-collection-errors",
            "source_commits": [],
            "add_only": True,
        },
        "engines": [
            {
                "name": name,
                "path": f"/verif/acsim/{name}.py",
                "serves_properties": sorted(pids),
                "kind_free_text": "deterministic simulation with fault injection (seeded scheduler, in-process stubs for pool/set-order/disk, reference-model oracles)",
            }
            for name, pids in sorted(engines.items())
        ],
        "checks": checks,
        "not_applicable": [
            {"property_id": pid, "reason": reason}
            for pid, reason in sorted({**NOT_APPLICABLE, **PENDING}.items())
        ],
        "notes": "All checks: /venv/bin/python /verif/check.py <id> --tier quick|thorough; exit 0 held / 1 VIOLATION with reproduced replay / 2 harness error. AUTOCARVER_SRC (default /repo) selects the tree under test. Known findings: /verif/known_findings.json.",
    }
    path = os.path.join(HERE, "MANIFEST.json")
    with open(path, "w", encoding="utf-8") as fobj:
        json.dump(manifest, fobj, indent=1)
    try:
        import jsonschema

        jsonschema.validate(manifest, json.load(open("/root/.vp/MANIFEST.schema.json")))
        print("MANIFEST.json valid;", len(checks), "checks,", len(manifest["not_applicable"]), "not applicable")
    except ImportError:
        print("MANIFEST.json written (jsonschema not importable here, not validated)")
    all_ids = {json.loads(l)["id"] for l in open(os.path.join(HERE, "properties.jsonl"))}
    covered = set(CLAIMS) | set(NOT_APPLICABLE) | set(PENDING)
    assert all_ids == covered, (all_ids - covered, covered - all_ids)


if __name__ == "__main__":
    sys.exit(main())
