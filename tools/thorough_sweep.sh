#!/bin/bash
# thorough tier under several VERIF_SEED values with a reduced wall budget (false-alarm sweep of the
# thorough-only worlds: large samples, many features, n_jobs up to 8, long histories)
here=$(cd "$(dirname "$0")/.." && pwd)
scratch=$(mktemp -d /tmp/tsweep_XXXX)
for seed in ${1:-1 2}; do for p in C13 C10 C06 C07 C17 C19 C04 C05; do
  out=$(VERIF_SEED=$seed VERIF_EVIDENCE_DIR=$scratch VERIF_REPLAY_OUT=$scratch/replays_$seed VERIF_BUDGET_S=${VERIF_BUDGET_S:-420} /venv/bin/python $here/check.py $p --tier thorough 2>&1)
  rc=$?
  echo "seed=$seed $p rc=$rc $(echo "$out" | tail -1)"
  [ $rc -ne 0 ] && echo "$out" | grep -E "violation oracle|VIOLATION|HARNESS" | cut -c1-600
done; done
echo "scratch=$scratch"
