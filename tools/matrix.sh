#!/bin/bash
# Runs every seeded change and self-made mutant against the quick check of EVERY claimed property
# (reduced run counts) and prints a matrix: 1 = VIOLATION reported, 0 = clean, E = harness error.
cd "$(dirname "$0")/.." || exit 2
props="C04 C05 C06 C07 C10 C13 C17 C19"
printf "change"; for p in $props; do printf "\t%s" $p; done; printf "\n"
for patch in seeded/*/patch.diff mutants/*.patch; do
  name=$(echo $patch | sed 's#seeded/##; s#/patch.diff##; s#mutants/##; s#.patch##')
  printf "%s" "$name"
  for p in $props; do
    runs=1000; [ $p = C13 ] && runs=8000; [ $p = C19 ] && runs=1056
    out=$(VERIF_RUNS=$runs tools/run_against.sh $patch $p quick 2>&1)
    rc=$(echo "$out" | grep -o 'exit=[0-9]*' | tail -1 | cut -d= -f2)
    case "$rc" in 0) c=0;; 1) c=1;; *) c=E;; esac
    printf "\t%s" $c
  done
  printf "\n"
done
