#!/bin/bash
# usage: run_against.sh <patch file> <property> [tier]   -> runs the check of <property> against a
# scratch worktree of /repo's HEAD with the patch applied (AUTOCARVER_SRC), evidence and replays go
# to a scratch directory; the worktree is removed afterwards.  Prints the check's tail and exit code.
patch=$(readlink -f "$1"); prop=$2; tier=${3:-quick}
tag=$(basename "$patch" | tr -c 'A-Za-z0-9' '_')_$$
wt=/tmp/ra_$tag; scratch=/tmp/ra_out_$tag
git -C /repo worktree add -q --detach "$wt" HEAD || exit 2
if ! git -C "$wt" apply "$patch"; then echo "patch does not apply"; git -C /repo worktree remove --force "$wt"; exit 2; fi
mkdir -p "$scratch"
AUTOCARVER_SRC="$wt" VERIF_EVIDENCE_DIR="$scratch" VERIF_REPLAY_OUT="$scratch" timeout 1500 /venv/bin/python /verif/check.py "$prop" --tier "$tier" > "$scratch/log" 2>&1
rc=$?
grep -E "VIOLATION|violation oracle|HARNESS|KNOWN" "$scratch/log" | cut -c1-400 | head -8
tail -1 "$scratch/log" | cut -c1-300
echo "exit=$rc patch=$(basename "$patch") property=$prop"
git -C /repo worktree remove --force "$wt"; rm -rf "$scratch"
exit $rc
