#!/bin/bash
# usage: keep_seed.sh <seed id> <patch file> <demo file> <property>
# Verifies in a fresh scratch worktree of /repo HEAD that the demo passes without the patch and fails
# with it, then stores /verif/seeded/<seed id>/{patch.diff,demo.py}.  (meta.json is written by hand.)
id=$1; patch=$(readlink -f "$2"); demo=$(readlink -f "$3"); prop=$4
wt=/tmp/ks_$id
git -C /repo worktree remove --force $wt 2>/dev/null
git -C /repo worktree add -q --detach $wt HEAD || exit 2
cp "$demo" $wt/demo_check.py
( cd $wt && PYTHONPATH=$wt timeout 600 /venv/bin/python demo_check.py > /tmp/ks_$id.clean.log 2>&1 ); clean=$?
git -C $wt apply "$patch" || { echo "patch does not apply"; git -C /repo worktree remove --force $wt; exit 2; }
( cd $wt && PYTHONPATH=$wt timeout 600 /venv/bin/python demo_check.py > /tmp/ks_$id.patched.log 2>&1 ); patched=$?
( cd $wt && PYTHONPATH=$wt /venv/bin/python -c "import AutoCarver; print(AutoCarver.__file__)" )
echo "demo without patch: exit=$clean ; with patch: exit=$patched"; tail -2 /tmp/ks_$id.patched.log
git -C /repo worktree remove --force $wt
if [ $clean -eq 0 ] && [ $patched -ne 0 ]; then
  mkdir -p /verif/seeded/$id; cp "$patch" /verif/seeded/$id/patch.diff; cp "$demo" /verif/seeded/$id/demo.py
  echo "kept /verif/seeded/$id (property $prop)"
else
  echo "NOT kept"
fi
