#!/venv/bin/python
"""Finds, in the tree given by AUTOCARVER_SRC, a run violating <prop> with a signature containing
<sig-json>, minimises it and stores it as replays/regress/<name>.json (used to keep a regression
replay for every repaired defect; run against the parent of the fix: commit)."""
import json
import os
import sys
import warnings

HERE = os.path.dirname(os.path.dirname(os.path.abspath(__file__)))
sys.path.insert(0, HERE)
warnings.simplefilter("ignore")
from acsim import batch  # noqa: E402
from acsim.core import import_autocarver  # noqa: E402

prop, sig, name = sys.argv[1], json.loads(sys.argv[2]), sys.argv[3]
n = int(sys.argv[4]) if len(sys.argv) > 4 else 3000
seed = int(os.environ.get("VERIF_SEED", "0"))
sys.argv = [sys.argv[0]]
import check  # noqa: E402

engine = check.engine_for(prop)
import_autocarver()
for idx in range(n):
    spec = engine.generate(prop, seed, idx, "quick")
    res = engine.execute(spec)
    hit = [v for v in res["violations"] if batch.sig_matches(sig, v["signature"])]
    if not hit:
        continue
    full = hit[0]["signature"]
    small = batch.shrink(engine, spec, full, budget_s=120)
    res = engine.execute(small)
    viol = next(v for v in res["violations"] if v["signature"] == full)
    path = batch.write_replay(prop, small, viol, res["fingerprint"], name=name + ".json")
    dst = os.path.join(HERE, "replays", "regress", name + ".json")
    os.replace(path, dst)
    print("harvested", dst, "run", idx, "signature", json.dumps(full), "\n  ", viol["message"][:300])
    sys.exit(0)
print("NOT FOUND", prop, sig)
sys.exit(3)
