#!/bin/bash
# usage: sweep.sh "<seeds>" "<props>" [tier]  -> runs the checks for several VERIF_SEED values with
# evidence/replays redirected to a scratch directory; prints one line per (seed, property).
seeds=${1:-"1 2 3"}; props=${2:-"C04 C05 C06 C07 C10 C13 C17 C19"}; tier=${3:-quick}
here=$(cd "$(dirname "$0")/.." && pwd)
scratch=$(mktemp -d /tmp/sweep_XXXX)
for seed in $seeds; do for p in $props; do
  out=$(VERIF_SEED=$seed VERIF_EVIDENCE_DIR=$scratch VERIF_REPLAY_OUT=$scratch/replays_$seed /venv/bin/python $here/check.py $p --tier $tier 2>&1)
  rc=$?
  echo "seed=$seed $p rc=$rc $(echo "$out" | tail -1)"
  if [ $rc -ne 0 ]; then echo "$out" | grep -E "violation oracle|VIOLATION|HARNESS" | cut -c1-600; fi
done; done
echo "scratch=$scratch"
