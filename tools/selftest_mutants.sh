#!/bin/bash
# Sensitivity self-test: every /verif/mutants/*.patch must make the quick check of its property
# print VIOLATION (exit 1).  Runs against scratch worktrees under /tmp (removed afterwards).
cd /verif || exit 2
bad=0
while IFS=$'\t' read -r name prop; do
  runs=800; [ "$prop" = C13 ] && runs=8000
  out=$(VERIF_RUNS=$runs tools/run_against.sh "mutants/$name.patch" "$prop" quick 2>&1)
  rc=$(echo "$out" | grep -o 'exit=[0-9]*' | tail -1)
  if echo "$out" | grep -q "^VIOLATION property=$prop" && [ "$rc" = "exit=1" ]; then
    echo "caught   $name ($prop)"
  else
    echo "MISSED   $name ($prop) $rc"; bad=1
  fi
done < mutants/INDEX.tsv
exit $bad
