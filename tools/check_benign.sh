#!/bin/bash
# usage: check_benign.sh <patch> -> runs the quick check of every claimed property against the patch
# (reduced run counts); a behaviour-preserving change must come out clean everywhere.
cd "$(dirname "$0")/.." || exit 2
patch=$1; bad=0
for p in C04 C05 C06 C07 C10 C13 C17 C19; do
  runs=1500; [ $p = C13 ] && runs=12000; [ $p = C19 ] && runs=1056
  out=$(VERIF_RUNS=$runs tools/run_against.sh "$patch" $p quick 2>&1)
  rc=$(echo "$out" | grep -o 'exit=[0-9]*' | tail -1 | cut -d= -f2)
  printf "%s %s rc=%s\n" "$(basename $(dirname $patch))/$(basename $patch)" $p "$rc"
  if [ "$rc" != "0" ]; then bad=1; echo "$out" | grep -E "violation oracle|VIOLATION|HARNESS" | grep -v KNOWN | cut -c1-500 | head -4; fi
done
exit $bad
