#!/usr/bin/env python3
"""Writes /verif/seeded/<id>/meta.json for every kept seeded change (single source: SEEDS below)."""
import json
import os

HERE = os.path.dirname(os.path.dirname(os.path.abspath(__file__)))
ORIGIN = "independent sub-agent given only the property text and a scratch worktree of /repo HEAD; nothing from /verif"
SEEDS = {
    "C17-leader-is-max-of-group": ("C17", "BaseDiscretizer.update_discretizer (group mode re-leading)", "two-step edit history on a quantitative feature: a 'replace' that moves an interval bound downwards (the old bound stays as a stale member) followed by a 'group' of a lower group or of the missing values into it; the stale bound becomes leader again", "C17 quick, oracle values_orders_after_edit", "MISSED by the first version of the C17 check (no 'replace' on quantitative features was generated); the edit generator now draws bound-moving 'replace' edits and the change is caught"),
    "C17-features-dropna-not-serialised": ("C17", "BaseDiscretizer.to_json", "carver fitted with dropna=False, then update_discretizer(feature, 'group', nan, kept) (sets features_dropna[feature]=True on the live object), then a JSON save/reload", "C17 quick, oracle same_output_after_reload (O3: JSON round trip after every edit); also C06 (restart of an edited object)", "caught"),
    "C06-content-paired-by-position": ("C06", "serialization.json_deserialize_values_orders", "order list and content dict in different orders, which only happens after replace_group_leader (update_discretizer 'replace', or 'group' of a quantile into a smaller one), followed by a save/reload", "C06 quick, oracles same_json_again / same_output_after_reload on restarts of edited objects", "caught"),
    "C06-float32-boundary-shortest-repr": ("C06", "serialization.convert_value_to_base_type", "float32 column (float32 quantile boundaries) saved to JSON and reloaded, then a frame holding the same values exactly on a boundary", "C06 quick, oracles same_json_again, same_summary_after_reload, same_output_after_reload", "caught"),
    "C13-get_group-cache-stale-after-replace-leader": ("C13", "GroupedList.get_group cache + replace_group_leader", "three-step history on one object: get_group (fills the cache), replace_group_leader(leader, other member), get_group on a member", "C13 quick, oracle get_group (the lookup sweep after every operation also fills the cache)", "caught"),
    "C13-replace-leader-statement-order": ("C13", "GroupedList.replace_group_leader", "replace_group_leader(x, x): the member is the leader itself (re-introduces the defect repaired by fix c9b25fc)", "C13 quick: regression replay replays/regress/C13-replace-leader-by-itself.json and exploration (content_keys)", "caught"),
    "C10-fit-feature-results-zipped-by-position": ("C10", "ContinuousDiscretizer.fit + fit_feature (two cooperating sites)", "n_jobs>1, at least 2 quantitative features, a worker completing out of submission order (imap_unordered)", "C10 quick, oracles values_orders / kept_features / fit_outcome through SimPool's seeded completion order", "caught"),
    "C10-feature-removal-while-iterating": ("C10", "QualitativeDiscretizer._prepare_data", "two id-like qualitative features (no modality reaches min_freq) adjacent in the set-iteration order of the features: depends on PYTHONHASHSEED", "C10 quick, oracle kept_features through SimSet's seeded iteration order and co-fitted subsets", "caught"),
    "C19-loaded-object-not-marked-fitted": ("C19", "load_discretizer", "fit, to_json, load_carver/load_discretizer, then a second (malformed or plain) fit of the reloaded object", "C19 quick, oracle fitted_object_unchanged on malformed calls issued after a restart operation", "caught"),
    "C19-multiclass-target-stringified-before-nan-check": ("C19", "MulticlassCarver._prepare_data", "MulticlassCarver only, a missing value anywhere in y", "C19 quick, oracle must_raise_assertion (fault T1, class MulticlassCarver)", "caught"),
    "C07-shallow-copy-shares-nan-cells": ("C07", "BaseDiscretizer._check_data (X.copy(deep=False)) + in-place write in transform_quantitative_feature", "copy=True, n_jobs<=1, NaN in a quantitative feature whose missing values were merged into a quantile group", "C07 quick, oracle input_not_modified", "caught"),
    "C04-searchsorted-instead-of-first-match": ("C04", "transform_quantitative_feature (numpy.select first match replaced by searchsorted)", "quantitative leaders listed out of order: a hand-built BaseDiscretizer with unsorted bounds (or its JSON reload), or a non-adjacent downward merge through update_discretizer", "C04 quick, oracle transform_equals_model", "MISSED by the first version (every simulated object came from a fit, whose bounds are sorted); hand-built BaseDiscretizer objects (the path load_discretizer takes, bounds possibly out of order) were added as an 11th system under simulation and the change is caught"),
    "C04-global-dropna-instead-of-per-feature": ("C04", "BaseDiscretizer.transform (reinstating NaN)", "object with dropna=False, then update_discretizer(feature, 'group', nan, kept) which sets the per-feature flag, then transform (also after reload)", "C04 quick, oracle closed_label_set / transform_equals_model after an edit", "caught"),
    "C05-default-replaced-features-skip-nan-check": ("C05", "BaseDiscretizer._check_new_values", "a qualitative feature with a default group and no missing value at fit, and ONE frame holding both a never-seen category and a missing value in that column", "C05 quick, oracle must_reject", "caught"),
    "C05-sorted-unexpected-values-typeerror": ("C05", "BaseDiscretizer._check_new_values (assertion message)", "feature without default group receiving two unexpected values of different types (an unseen numeric code and a missing value)", "C05 quick, oracle no_other_exception", "caught"),
    "C13-copy-takes-order-from-content-dict": ("C13", "GroupedList.__init__ (copy branch)", "replace_group_leader on a group that is not last (content dict order then differs from the list order), followed by GroupedList(gl)", "C13 quick, oracle model_leaders on aliased copies", "caught"),
    "C13-sort-drops-numpy-int-leaders": ("C13", "GroupedList.sort", "all non-string leaders are ints, a first sort() (leaders become numpy.int64), then a second sort()", "C13 quick, oracle model_leaders", "caught"),
    "C06-fit-resets-features-dropna": ("C06", "BaseDiscretizer.fit (cooperating with load_discretizer calling fit())", "dropna=False, missing values grouped by update_discretizer, JSON save/reload, then a frame with NaN", "C06 quick, oracles same_json_again / same_output_after_reload", "caught"),
    "C06-summary-lists-python-ints-after-reload": ("C06", "BaseDiscretizer.summary", "a qualitative feature whose numeric categories live in an int64 column (numpy.int64 at fit, python int after the JSON round trip), then summary() of the reloaded object", "C06 quick, oracle same_summary_after_reload", "MISSED at first: the world generator only produced object-dtype columns for numeric categories; native int64/float64 qualitative columns were added and the change is caught"),
    "C07-default-replacement-applied-to-every-column": ("C07", "BaseDiscretizer._check_new_values", "a frame holding a value unseen for a qualitative feature with a default group, the same literal value also occurring in another column of the frame", "C07 quick, oracle non_feature_columns_unchanged / row_wise_purity", "caught"),
    "C07-pooled-transform-unordered-and-positional": ("C07", "BaseDiscretizer._transform_quantitative (two cooperating sites)", "n_jobs>1, at least two quantitative features, worker completion order different from submission order", "C07 quick, oracles row_wise_purity / repeatable_transform (SimPool completion order)", "caught"),
    "C10-unknown-values-replaced-across-columns": ("C10", "BaseDiscretizer._check_new_values", "a modality unseen for feature A (with default group) that is a known modality of feature B fitted alongside, in the same frame", "C10 quick, oracles same_output / same_rejection (subset vs all features)", "MISSED at first: injected unseen categories were novel tokens known to no feature; 'borrowed_category' injections (a value another qualitative feature knows) were added and the change is caught"),
    "C10-nan-unique-through-set": ("C10", "base_discretizers.nan_unique", "a numeric-valued ordinal feature whose ranking lacks several observed values (appended in set-iteration order): depends on PYTHONHASHSEED", "C10 quick, oracle values_orders (SimSet order inside the worker body)", "MISSED at first for two reasons: no numeric-valued ordinal features with incomplete rankings were generated, and SimSet decisions were switched off inside SimPool task bodies; both corrected and the change is caught"),
    "C17-json-order-from-content-keys": ("C17", "serialization.json_serialize_values_orders (cooperating with GroupedList.replace_group_leader)", "an update_discretizer edit that swaps a leader on a group that is not last ('replace', or a downward 'group' of quantiles), then to_json + load", "C17 quick, oracle same_output_after_reload (O3)", "caught"),
    "C17-summary-raw-labels-cached": ("C17", "BaseDiscretizer.summary (cache never invalidated by update_discretizer)", "summary() called before an edit and again after a quantitative 'group' edit", "C17 quick, oracles summary_after_edit / summary_shows_nan_in_its_group (observer calls interleaved with edits)", "caught"),
    "C04-qualitative-labels-cached-at-first-transform": ("C04", "BaseDiscretizer._transform_qualitative (cache) + update_discretizer", "fit, transform, update_discretizer on a qualitative feature, transform again", "C04 quick, oracles closed_label_set / transform_equals_model after an edit", "caught"),
    "C04-pooled-transform-imap-unordered-positional": ("C04", "BaseDiscretizer._transform_quantitative (two cooperating sites)", "n_jobs>1, two or more quantitative features, worker completion order different from the listing order", "C04 quick, oracle transform_equals_model on the pooled transform path (SimPool completion order)", "caught"),
    "C19-infer-dtype-misses-string-in-integer-column": ("C19", "QuantitativeDiscretizer._prepare_data", "a string cell injected into a quantitative column whose other values are all integers without NaN (infer_dtype says 'mixed-integer')", "C19 quick, oracle must_raise_assertion (fault X3 on int-typed quantitative columns)", "caught"),
    "C19-raw-column-check-before-casting-removed": ("C19", "BaseDiscretizer._check_data", "a fitted MulticlassCarver, then transform(X) with a raw feature column missing (reverts fix ad3f2b3)", "C19 quick: regression replay replays/regress/C19-multiclass-transform-missing-column-keyerror.json and exploration", "caught"),
    "C05-all-nan-column-returns-before-check": ("C05", "transform_quantitative_feature", "a quantitative feature without missing values at fit and a transformed frame whose column holds only missing values (single-row NaN frame or small all-NaN frame)", "C05 quick, oracle must_reject (single-row frames with injected NaN)", "caught"),
    "C05-unseen-values-cached-into-default-group": ("C05", "BaseDiscretizer._check_new_values (transform mutates fitted state)", "the same fitted object transforms the same unseen category twice, feature with a default group", "C05 quick, oracle closed_label_set (duplicated transform calls / repeated injected tokens in one session)", "caught"),
    "C07-nan-rows-by-label-used-as-positions": ("C07", "transform_quantitative_feature", "NaN in a quantitative feature at transform time and an index that is not 0..n-1 in order (subset, permutation, relabelled or string index)", "C07 quick, oracles row_wise_purity / transform_raised", "caught"),
}


def main():
    for sid, (prop, site, needs, caught_by, result) in SEEDS.items():
        folder = os.path.join(HERE, "seeded", sid)
        if not os.path.isdir(folder):
            print("missing", folder)
            continue
        meta = {
            "breaks_property": prop,
            "site": site,
            "needs_to_manifest": needs,
            "origin": ORIGIN,
            "existing_suite": "102 passed with the change (run by the sub-agent with pytest-xdist; the change touches no test)",
            "verified": "tools/keep_seed.sh: demo.py exits 0 on a clean scratch worktree of /repo HEAD and non-zero with patch.diff applied",
            "checks_run": f"tools/run_against.sh seeded/{sid}/patch.diff {prop} quick  (scratch worktree + AUTOCARVER_SRC; /repo itself untouched)",
            "caught_by": caught_by,
            "result": result,
        }
        with open(os.path.join(folder, "meta.json"), "w", encoding="utf-8") as fobj:
            json.dump(meta, fobj, indent=1)
    print(len(SEEDS), "meta.json written")


if __name__ == "__main__":
    main()
