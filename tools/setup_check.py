#!/venv/bin/python
"""MANIFEST.setup_cmd: nothing is compiled; verifies that the tree under test and its deps import."""
import os
import sys

sys.path.insert(0, os.path.dirname(os.path.dirname(os.path.abspath(__file__))))
from acsim.core import import_autocarver  # noqa: E402

ac = import_autocarver()
import numpy  # noqa: E402
import pandas  # noqa: E402
import scipy  # noqa: E402
import sklearn  # noqa: E402

from acsim import seams  # noqa: E402

seams.install()
os.makedirs(os.path.join(os.path.dirname(os.path.dirname(os.path.abspath(__file__))), "evidence"), exist_ok=True)
os.makedirs(os.path.join(os.path.dirname(os.path.dirname(os.path.abspath(__file__))), "replays", "out"), exist_ok=True)
print("setup ok:", ac.__file__, "pandas", pandas.__version__, "numpy", numpy.__version__, "scipy", scipy.__version__, "sklearn", sklearn.__version__)
