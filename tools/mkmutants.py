#!/usr/bin/env python3
"""Writes /verif/mutants/*.patch: small realistic edits of /repo used as a sensitivity self-test.

Each mutant is (name, property expected to catch it, file, old text, new text).  The patches are
produced against /repo's HEAD in a scratch worktree under /tmp, which is removed afterwards."""
import os
import subprocess
import sys

HERE = os.path.dirname(os.path.dirname(os.path.abspath(__file__)))
GL = "AutoCarver/discretizers/utils/grouped_list.py"
BD = "AutoCarver/discretizers/utils/base_discretizers.py"
QD = "AutoCarver/discretizers/utils/quantitative_discretizers.py"
SER = "AutoCarver/discretizers/utils/serialization.py"
BC = "AutoCarver/carvers/base_carver.py"

MUTANTS = [
    ("C13-remove-forgets-content", "C13", GL, "        super().remove(value)\n        self.content.pop(value)\n", "        super().remove(value)\n"),
    ("C13-group-extends-in-place", "C13", GL, "            self.content.update({kept: content_discarded + content_kept, discarded: []})\n", "            content_kept[:0] = content_discarded\n            self.content.update({kept: content_kept, discarded: []})\n"),
    ("C10-imap-unordered-zipped-with-submit-order", "C10", QD, "        self.values_orders.update({feature: order for (feature, order) in all_orders})\n", "        self.values_orders.update(\n            {feature: order for feature, (_, order) in zip(self.quantitative_features, all_orders)}\n        )\n"),
    ("C10-transform-results-by-position", "C10", BD, "        X[[feature for feature, _ in all_transformed]] = DataFrame(\n            {feature: values for feature, values in all_transformed}, index=X.index\n        )\n", "        X[self.quantitative_features] = DataFrame(\n            {feature: values for feature, values in sorted(all_transformed)}, index=X.index\n        )\n"),
    ("C10-nan-unique-set-comprehension", "C10", BD, "    # unique values\n    uniques = unique(x)\n\n    # filtering out nans\n    uniques = [u for u in uniques if notna(u)]\n", "    # unique values (filtering out nans)\n    uniques = list({u for u in x[notna(x)]})\n"),
    ("C04-interval-test-strict", "C04", BD, "    values_to_group = [df_feature <= value for value in feature_values if value != str_nan]\n", "    values_to_group = [df_feature < value for value in feature_values if value != str_nan]\n"),
    ("C05-unknown-values-not-checked-after-default", "C05", BD, "            assert len(unexpected) == 0, (\n                \" - [Discretizer] Unexpected value! The ordering for values: \"", "            assert len(unexpected) == 0 or self.str_default is not None, (\n                \" - [Discretizer] Unexpected value! The ordering for values: \""),
    ("C06-inf-not-restored-on-load", "C06", SER, "    if value == \"numpy.inf\":  # numpy.inf value\n        output = inf\n", "    if value == \"numpy.inf\":  # numpy.inf value\n        output = 1.7976931348623157e308\n"),
    ("C06-features-dropna-not-saved", "C06", BD, "            \"features_dropna\": self.features_dropna,\n", ""),
    ("C06-content-keys-not-restringified", "C06", SER, "            if not isinstance(value, str) and isfinite(value):\n                content_key = str(value)\n", "            if isinstance(value, float) and isfinite(value):\n                content_key = str(value)\n"),
    ("C07-transform-caches-labels-on-self", "C07", BD, "        # reinstating nans\n        for feature, dropna in self.features_dropna.items():\n            if not dropna:  # checking whether we should have dropped nans or not\n                label_per_value = self.labels_per_values[feature]\n", "        # reinstating nans\n        for feature, dropna in self.features_dropna.items():\n            if not dropna:  # checking whether we should have dropped nans or not\n                label_per_value = self.labels_per_values[feature]\n                if len(x_copy) == 1:\n                    self.features_dropna[feature] = True\n"),
    ("C17-labels-not-refreshed-after-edit", "C17", BD, "            self.values_orders.update({feature: order})\n            self.labels_per_values = self._get_labels_per_values(self.output_dtype)\n", "            self.values_orders.update({feature: order})\n            if mode == \"group\":\n                self.labels_per_values = self._get_labels_per_values(self.output_dtype)\n"),
    ("C19-y-nan-check-removed", "C19", BD, "                assert not any(y.isna()), \" - [Discretizer] y should not contain numpy.nan\"\n", "                assert not all(y.isna()), \" - [Discretizer] y should not contain numpy.nan\"\n"),
    ("C19-refit-guard-after-data-check", "C19", BD, "        # checking for previous fits of the discretizer before anything is modified\n        assert not self.is_fitted, (\n            \" - [Discretizer] This Discretizer has already been fitted. \"\n            \"Fitting it anew could break established orders. Please initialize a new one.\"\n        )\n\n        return self.__check_data(X, y)\n", "        return self.__check_data(X, y)\n"),
]


def main():
    wt = "/tmp/mkmutants_wt"
    subprocess.run(["git", "-C", "/repo", "worktree", "remove", "--force", wt], capture_output=True)
    subprocess.run(["git", "-C", "/repo", "worktree", "add", "-q", "--detach", wt, "HEAD"], check=True)
    out_dir = os.path.join(HERE, "mutants")
    os.makedirs(out_dir, exist_ok=True)
    index = []
    try:
        for name, prop, path, old, new in MUTANTS:
            full = os.path.join(wt, path)
            text = open(full).read()
            if text.count(old) != 1:
                print(f"!! {name}: anchor found {text.count(old)} times", file=sys.stderr)
                continue
            open(full, "w").write(text.replace(old, new))
            diff = subprocess.run(["git", "-C", wt, "diff"], capture_output=True, text=True, check=True).stdout
            open(os.path.join(out_dir, name + ".patch"), "w").write(diff)
            subprocess.run(["git", "-C", wt, "checkout", "--", "."], check=True)
            index.append(f"{name}\t{prop}")
    finally:
        subprocess.run(["git", "-C", "/repo", "worktree", "remove", "--force", wt], check=False)
    open(os.path.join(out_dir, "INDEX.tsv"), "w").write("\n".join(index) + "\n")
    print(len(index), "mutants written")


if __name__ == "__main__":
    main()
