#!/venv/bin/python
"""Entry point of the AutoCarver deterministic-simulation checks.

    check.py <property> --tier quick|thorough      run the check, write evidence/<property>.json
    check.py <property> --replay <file> [--json]   replay one recorded run in this interpreter
    check.py <property> --fingerprints a,b,c       print fingerprints of run indices (self-test)
    check.py selftest-determinism [--n N]          large determinism self-test over all engines

exit 0: the property held on everything explored (known findings are printed as KNOWN-FINDING)
exit 1: at least one line "VIOLATION property=<id> replay=<path>" whose replay reproduced
exit 2: harness error / timeout / replay mismatch (never printed as a violation)
"""
from __future__ import annotations

import argparse
import json
import os
import subprocess
import sys
import time
import traceback
import warnings

HERE = os.path.dirname(os.path.abspath(__file__))
sys.path.insert(0, HERE)

# fixed hash seed for the main run; the self-test shows fingerprints do not depend on it
if os.environ.get("PYTHONHASHSEED") is None and not os.environ.get("VERIF_NO_REEXEC"):
    os.environ["PYTHONHASHSEED"] = "0"
    os.execv(sys.executable, [sys.executable] + sys.argv)

warnings.simplefilter("ignore")

from acsim import batch  # noqa: E402  pylint: disable=C0413
from acsim.core import HarnessError, import_autocarver  # noqa: E402  pylint: disable=C0413


def engine_for(prop):
    if prop == "C13":
        from acsim import glsim  # pylint: disable=C0415

        return glsim.ENGINE
    if prop == "C10":
        from acsim import pairsim  # pylint: disable=C0415

        return pairsim.ENGINE
    if prop in ("C04", "C05", "C06", "C07", "C17", "C19"):
        from acsim import session  # pylint: disable=C0415

        return session.ENGINE
    raise SystemExit(f"unknown or unclaimed property {prop}")


CLAIMED = ["C04", "C05", "C06", "C07", "C10", "C13", "C17", "C19"]


def fingerprints_of(engine, prop, seed, tier, indices):
    out = {}
    for idx in indices:
        spec = engine.generate(prop, seed, idx, tier)
        out[str(idx)] = engine.execute(spec)["fingerprint"]
    return out


def fresh_fingerprints(prop, seed, tier, indices, hashseed):
    env = dict(os.environ, PYTHONHASHSEED=str(hashseed), VERIF_SEED=str(seed), VERIF_NO_REEXEC="1")
    proc = subprocess.run(
        [
            sys.executable,
            os.path.join(HERE, "check.py"),
            prop,
            "--tier",
            tier,
            "--fingerprints",
            ",".join(str(i) for i in indices),
        ],
        capture_output=True,
        text=True,
        env=env,
        timeout=1800,
        check=False,
    )
    for line in reversed(proc.stdout.splitlines()):
        if line.startswith("{"):
            return json.loads(line)
    raise HarnessError(f"fingerprint subprocess failed rc={proc.returncode}: {proc.stderr[-800:]}")


def do_replay(engine, prop, path, as_json):
    with open(path, encoding="utf-8") as fobj:
        spec = json.load(fobj)
    observed = spec.pop("observed", None)
    recorded_fp = spec.pop("fingerprint", None)
    pinned = spec.pop("pythonhashseed", None)
    if pinned is not None and os.environ.get("PYTHONHASHSEED") != str(pinned) and not os.environ.get("VERIF_REPLAY_KEEP_HASHSEED"):
        # one hash seed is one repeatable execution: replay under the hash seed of the recorded run
        os.environ["PYTHONHASHSEED"] = str(pinned)
        os.execv(sys.executable, [sys.executable] + sys.argv)
    res = engine.execute(spec)
    viols = res.get("violations", [])
    report = {
        "property": prop,
        "replay": path,
        "violations": [
            {"oracle": v["oracle"], "signature": v["signature"], "step": v.get("step"), "message": v.get("message")}
            for v in viols
        ],
        "fingerprint": res["fingerprint"],
        "fingerprint_matches": recorded_fp is None or recorded_fp == res["fingerprint"],
        "expected": observed,
    }
    same = observed is not None and any(
        v["signature"] == observed["signature"] and v.get("step") == observed.get("step") for v in viols
    )
    report["reproduced"] = bool(same)
    if as_json:
        print(json.dumps(report))
    else:
        for v in viols:
            print(f"replayed violation oracle={v['oracle']} step={v.get('step')}: {v.get('message')}")
        print(f"fingerprint={res['fingerprint']} matches_recorded={report['fingerprint_matches']}")
        if viols:
            print(f"VIOLATION property={prop} replay={path}")
    return 1 if viols else 0


def run_check(prop, tier, seed):
    started = time.time()
    engine = engine_for(prop)
    import_autocarver()
    plan = engine.plan(prop, tier)
    budget = float(os.environ.get("VERIF_BUDGET_S", plan["wall_budget_s"]))
    n_runs = int(os.environ.get("VERIF_RUNS", plan["n_runs"]))
    known = batch.load_known(prop)
    exit_code = 0
    violation_lines = []
    known_lines = []
    notes = []

    # 1. regression replays of listed findings
    for entry in known:
        path = entry.get("replay")
        if not path:
            continue
        path = os.path.join(HERE, path)
        with open(path, encoding="utf-8") as fobj:
            spec = json.load(fobj)
        spec.pop("observed", None)
        spec.pop("fingerprint", None)
        spec.pop("pythonhashseed", None)
        res = engine.execute(spec)
        sigs = [v["signature"] for v in res.get("violations", [])]
        if entry["status"] == "known":
            if any(batch.sig_matches(entry["signature"], s) for s in sigs):
                known_lines.append(f"KNOWN-FINDING: property={prop} {entry['text']}")
            else:
                notes.append(f"known finding no longer reproduces on its replay: {entry['text']}")
            others = [s for s in sigs if batch.match_known(known, s) is None]
            if others:
                violation_lines.append(f"VIOLATION property={prop} replay={path}")
        elif entry["status"] == "fixed":
            if sigs:
                violation_lines.append(f"VIOLATION property={prop} replay={path}")
                notes.append(f"fixed finding is back: {entry['text']}")

    # 2. exploration
    total = batch.run_batch(
        engine, prop, seed, tier, n_runs, plan["chunk"], budget, run_cap_s=plan.get("run_cap_s", 600)
    )
    if total["harness_errors"]:
        print(f"HARNESS_ERROR property={prop} runs={len(total['harness_errors'])}")
        for idx, text in total["harness_errors"][:3]:
            print(f"  run {idx}: {text}")
        return 2

    # 3. determinism self-check: same indices in a fresh interpreter, other hash seed, one process
    n_fp = plan.get("selfcheck_runs", 4)
    indices = sorted(int(i) for i in total["fingerprints"])[:n_fp]
    fresh = fresh_fingerprints(prop, seed, tier, indices, hashseed=12345 + seed)
    mismatched = [i for i in indices if fresh.get(str(i)) != total["fingerprints"][str(i)]]
    determinism = {"indices": indices, "fresh_interpreter_hashseed": 12345 + seed, "mismatches": mismatched}
    if mismatched:
        print(f"HARNESS_ERROR property={prop} nondeterministic fingerprints for runs {mismatched}")
        return 2

    # 3b. engine-specific extra explorations (real hash seeds, real pool cross-check, cross-process
    # restarts); they may add violations of their own
    extra_cov = {}
    extra = getattr(engine, "extra_coverage", None)
    if extra is not None:
        extra_cov = extra(prop, seed, tier, total)
        if extra_cov.pop("_mismatch", None):
            print(f"HARNESS_ERROR property={prop} stub cross-check disagrees with the real mechanism: {json.dumps(extra_cov)[:800]}")
            return 2
        total["violations"].extend(extra_cov.pop("_violations", []))

    # 4. violations: group by signature, suppress known ones, shrink, write replay, verify replay
    by_sig: dict[str, list] = {}
    for item in total["violations"]:
        by_sig.setdefault(batch.sig_key(item["violation"]["signature"]), []).append(item)
    reported = 0
    for _, items in sorted(by_sig.items(), key=lambda kv: kv[1][0]["idx"]):
        first = items[0]
        signature = first["violation"]["signature"]
        entry = batch.match_known(known, signature)
        if entry is not None:
            line = f"KNOWN-FINDING: property={prop} {entry['text']}"
            if line not in known_lines:
                known_lines.append(line)
            continue
        if reported >= plan.get("max_reported", 5):
            notes.append(f"further violation signature not minimised: {signature} ({len(items)} runs)")
            violation_lines.append(f"VIOLATION property={prop} replay=(not written, see notes) signature={json.dumps(signature, sort_keys=True)}")
            continue
        small = batch.shrink(engine, first["spec"], signature, budget_s=plan.get("shrink_budget_s", 90))
        res = engine.execute(small)
        viol = next((v for v in res["violations"] if v["signature"] == signature), None)
        if viol is None:  # shrinking lost it: fall back to the original run
            small = first["spec"]
            res = engine.execute(small)
            viol = next((v for v in res["violations"] if v["signature"] == signature), None)
        if viol is None:
            print(f"HARNESS_ERROR property={prop} violation of run {first['idx']} did not re-execute")
            return 2
        # the schedule actually taken is written into the replay file (explicit decision list) when
        # replaying that list reproduces the same violation; otherwise the seeded streams are kept
        if res.get("sched_decisions"):
            explicit = dict(small, sched={"mode": "explicit", "decisions": res["sched_decisions"]})
            res_e = engine.execute(explicit)
            viol_e = next((v for v in res_e["violations"] if v["signature"] == signature), None)
            if viol_e is not None and viol_e.get("step") == viol.get("step"):
                small, res, viol = explicit, res_e, viol_e
        path = batch.write_replay(prop, small, viol, res["fingerprint"])
        report = batch.replay_in_fresh_process(prop, path)
        if not report.get("reproduced") or not report.get("fingerprint_matches"):
            print(f"HARNESS_ERROR property={prop} replay mismatch for {path}: {json.dumps(report)[:600]}")
            return 2
        reported += 1
        print(f"  violation oracle={viol['oracle']} step={viol.get('step')} runs={len(items)}: {viol.get('message')}")
        violation_lines.append(f"VIOLATION property={prop} replay={path}")

    # 5. evidence
    wall = time.time() - started
    stats = total["stats"]
    runs = total["runs"]
    coverage = {
        "evaluations": runs,
        "distinct_nontrivial": len(total["distinct"]),
        "rule": plan["rule"],
        "samples": total["samples"] or [{"note": "no non-trivial sample in this batch"}],
        "exhaustive": False,
        "planned_runs": total["planned_runs"],
        "truncated_by_wall_budget": total["truncated_by_wall"],
        "nontrivial_runs": total["nontrivial_runs"],
        "simulated_runs_per_hour": round(runs / max(total["wall_s"], 1e-9) * 3600),
        "seeds_per_hour": round(runs / max(total["wall_s"], 1e-9) * 3600),
        "simulated_time_events": total["sim_time"],
        "simulated_time_note": "the code reads no clock; simulated time is the global event sequence number (one tick per operation / state observation / pool scheduling decision)",
        "operations_executed": total["steps"],
        "operations_skipped_as_invalid": total["skipped"],
        "fault_kinds_fired": stats.get("faults", {}),
        "probes_hit": stats.get("probes", {}),
        "counts": stats.get("counts", {}),
        "distinct_schedule_signatures": len(total["scheds"]),
        "distinct_operation_shapes": len(total["shapes"]),
        "distinct_final_states": len(total["states"]),
        "world_rejected_by_exception_class": total["world_rejected"],
        "determinism_selfcheck": determinism,
        "components": engine.components(),
        "workers": total["workers"],
        "batch_wall_s": round(total["wall_s"], 2),
        "known_findings_printed": known_lines,
        "notes": notes,
        "autocarver_src": os.environ.get("AUTOCARVER_SRC", "/repo"),
    }
    coverage.update(extra_cov)
    batch.write_evidence(
        prop, tier, seed, plan["level"], coverage, plan["assumptions"], wall, len(violation_lines)
    )
    for line in known_lines:
        print(line)
    for note in notes:
        print(f"note: {note}")
    for line in violation_lines:
        print(line)
        exit_code = 1
    print(
        f"{prop} {tier}: runs={runs} distinct_nontrivial={len(total['distinct'])} "
        f"steps={total['steps']} wall={wall:.1f}s violations={len(violation_lines)}"
    )
    return exit_code


def selftest_determinism(n):
    """n seeds per engine: batch workers (16 and 4) vs a fresh single-process interpreter under two
    other hash seeds; all fingerprints must agree."""
    bad = 0
    for prop in ("C13", "C10", "C06", "C17", "C19"):
        engine = engine_for(prop)
        import_autocarver()
        indices = list(range(n))
        here = fingerprints_of(engine, prop, 7, "quick", indices)
        again = fingerprints_of(engine, prop, 7, "quick", indices)
        f1 = fresh_fingerprints(prop, 7, "quick", indices, hashseed=1)
        f2 = fresh_fingerprints(prop, 7, "quick", indices, hashseed=987654)
        diff = [i for i in indices if len({here[str(i)], again[str(i)], f1[str(i)], f2[str(i)]}) != 1]
        print(f"selftest-determinism {prop}: {n} runs x 4 executions, mismatches={diff}")
        bad += len(diff)
    return 2 if bad else 0


def main():
    parser = argparse.ArgumentParser()
    parser.add_argument("prop")
    parser.add_argument("--tier", default=os.environ.get("VERIF_TIER", "quick"), choices=["quick", "thorough"])
    parser.add_argument("--replay")
    parser.add_argument("--json", action="store_true")
    parser.add_argument("--fingerprints")
    parser.add_argument("--n", type=int, default=40)
    args = parser.parse_args()
    seed = int(os.environ.get("VERIF_SEED", "0"))
    try:
        if args.prop == "selftest-determinism":
            return selftest_determinism(args.n)
        if args.prop not in CLAIMED:
            raise SystemExit(f"{args.prop} is not claimed (see MANIFEST.json not_applicable)")
        engine = engine_for(args.prop)
        if args.replay:
            import_autocarver()
            return do_replay(engine, args.prop, args.replay, args.json)
        if args.fingerprints is not None:
            import_autocarver()
            indices = [int(i) for i in args.fingerprints.split(",") if i != ""]
            print(json.dumps(fingerprints_of(engine, args.prop, seed, args.tier, indices)))
            return 0
        return run_check(args.prop, args.tier, seed)
    except HarnessError as err:
        print(f"HARNESS_ERROR {err}")
        return 2
    except SystemExit:
        raise
    except Exception:  # pylint: disable=W0718
        print("HARNESS_ERROR unexpected exception in harness code")
        traceback.print_exc()
        return 2


if __name__ == "__main__":
    sys.exit(main())
